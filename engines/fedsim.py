"""Engine F: discrete-event simulation of a SAML federation built from real pysaml2 nodes.

A *scenario* (plain JSON) is the replay file: node specs, metadata views, clock skews and an
ordered event list with absolute simulated times.  `run_scenario` executes it and returns the
recorded history and the oracle verdicts.  Events whose prerequisite is missing (e.g. a delivery
for a flow whose answer event was removed by the minimiser) are no-ops, so any sub-list of a
scenario's events is again a valid scenario.

Event kinds:
  start      SP creates an AuthnRequest for an IdP (flow f)
  req        deliver flow f's request to an IdP endpoint (possibly another IdP's / mutated)
  answer     the IdP answers flow f (honest or "dialect" composition; success or error status)
  unsol      IdP-initiated response (no request)
  resp       deliver response r of flow f to an SP endpoint (possibly another SP's / mutated /
             under tool faults)
  aq / aq_answer / aq_resp     attribute query over SOAP
  lo / lo_req                  logout request SP -> IdP
  jump       clock jump on one node
  restart    node process restart
  refresh    node reloads peers' current metadata
  roll       IdP key roll-over (truth changes; peers stay stale until they refresh)
  misdeploy  IdP signs with a key that is not the one its metadata lists
"""
import base64
import copy
import hashlib
import json
import re
import xml.etree.ElementTree as ET

from simcore import seams, wire
from simcore.prng import rng as mkrng
from simcore.world import World, cert_file, key_file, cert_b64
from simcore import simxmlsec
from engines import fed
from engines.fed import (BINDING_HTTP_POST, BINDING_HTTP_REDIRECT, BINDING_SOAP, saml, samlp,
                         Policy, NAME_FORMAT_URI)

from saml2_tophat import class_name
from saml2_tophat.sigver import pre_signature_part, signed_instance_factory, pre_encrypt_assertion
from saml2_tophat.s_utils import error_status_factory
from saml2_tophat.response import AuthnResponse

BIND = {"post": BINDING_HTTP_POST, "redirect": BINDING_HTTP_REDIRECT, "soap": BINDING_SOAP,
        "artifact": fed.BINDING_HTTP_ARTIFACT}
# request kind -> (endpoint key prefix, root element, parse method of the receiving Server)
REQ_KIND = {
    "authn_request": ("sso_", "AuthnRequest", "parse_authn_request"),
    "logout_request": ("slo_", "LogoutRequest", "parse_logout_request"),
    "attribute_query": ("aa_", "AttributeQuery", "parse_attribute_query"),
    "manage_name_id_request": ("mni_", "ManageNameIDRequest", "parse_manage_name_id_request"),
    "name_id_mapping_request": ("nim_", "NameIDMappingRequest", "parse_name_id_mapping_request"),
    "authn_query": ("aqs_", "AuthnQuery", "parse_authn_query"),
    "authz_decision_query": ("azs_", "AuthzDecisionQuery", "parse_authz_decision_query"),
}
PREFIX_KIND = {v[0]: (k, v[1], v[2]) for k, v in REQ_KIND.items()}
B64 = "ABCDEFGHIJKLMNOPQRSTUVWXYZabcdefghijklmnopqrstuvwxyz0123456789+/"
RESP_NODE = "urn:oasis:names:tc:SAML:2.0:protocol:Response"
ASSERT_NODE = "urn:oasis:names:tc:SAML:2.0:assertion:Assertion"

_PUBS = {}


def fixture_pub(i):
    if i not in _PUBS:
        with open(cert_file(i), "rb") as f:
            _PUBS[i] = simxmlsec.load_cert_public_key(f.read())
    return _PUBS[i]


def label_index(label):
    return int(label[1:])


# ----------------------------------------------------------------------------- mutations

def _alter_char(s, pos, r, alphabet=None):
    if not s:
        return s
    pos %= len(s)
    old = s[pos]
    alphabet = alphabet or "abcdefghijklmnopqrstuvwxyz0123456789"
    new = old
    while new == old:
        new = alphabet[r.randrange(len(alphabet))]
    return s[:pos] + new + s[pos + 1:]


def _sig_of(elem):
    return elem.find(wire.q(wire.DS, "Signature"))


def _target_elem(root, target):
    if target == "response":
        return root
    if target == "assertion":
        a = root.find(wire.q(wire.SAML, "Assertion"))
        if a is None:
            # on its way to encryption the assertion already sits inside the EncryptedAssertion wrapper
            a = root.find(wire.q(wire.SAML, "EncryptedAssertion") + "/" + wire.q(wire.SAML, "Assertion"))
        return a
    return None


def _soap_wrap(root, mut, r):
    """Signature wrapping inside a SOAP envelope: the genuine, signed message is parked in soapenv:Header and the
    Body carries a message of the sender's making - a copy with altered content that keeps the ds:Signature
    element (whose Reference still points at the genuine one).  `ids`: "other" gives the Body message an ID of
    its own, "same" keeps the ID (two elements with one ID in the envelope); `sig`: "moved" takes the signature out
    of the parked original, "copied" leaves it there as well."""
    import copy as _copy
    if root.tag != wire.q(wire.SOAPENV, "Envelope"):
        return None, "not-soap"
    body = root.find(wire.q(wire.SOAPENV, "Body"))
    if body is None or len(body) != 1 or _sig_of(body[0]) is None:
        return None, "no-signature"
    forged = body[0]
    genuine = _copy.deepcopy(forged)
    sigs = set()
    for s_ in forged.iter(wire.q(wire.DS, "Signature")):
        sigs.update(s_.iter())
    cands = [e for e in forged.iter() if e not in sigs and (e.text or "").strip() and e is not forged
             and not e.tag.endswith("}Issuer")]
    if cands:
        e = cands[r.randrange(len(cands))]
        e.text = "forged-" + e.text
        what = e.tag.rsplit("}", 1)[-1]
    else:
        forged.set("Consent", "urn:oasis:names:tc:SAML:2.0:consent:forged")
        what = "@Consent"
    ids = mut.get("ids", "other")
    if ids == "other" and forged.get("ID"):
        forged.set("ID", "id-wrapped%08x" % r.getrandbits(32))
    header = root.find(wire.q(wire.SOAPENV, "Header"))
    if header is None:
        header = ET.Element(wire.q(wire.SOAPENV, "Header"))
        if mut.get("place", "header") == "header":
            root.insert(0, header)
        else:
            root.append(header)
    if mut.get("sig", "moved") == "moved":
        # the signature travels with the forged message only; its Reference resolves to the parked original, which
        # without its enveloped signature digests to exactly what was signed
        gs = _sig_of(genuine)
        if gs is not None:
            genuine.remove(gs)
    header.append(genuine)
    return ET.tostring(root, encoding="utf-8"), "soap-wrap:%s:%s:%s" % (ids, mut.get("sig", "moved"), what)


def mutate_xml(xml, mut, r):
    """ET-level mutation of a decoded message.  -> (new xml bytes, description) or (None, why)."""
    try:
        root = ET.fromstring(xml)
    except ET.ParseError:
        return None, "unparseable"
    where = mut["where"]
    if where == "soap-wrap":
        return _soap_wrap(root, mut, r)
    target = _target_elem(root, mut.get("target", "response"))
    if target is None:
        return None, "no-target"
    sig = _sig_of(target)
    if where == "sigvalue-empty":
        # the signature element stays, its SignatureValue is emptied (what an unfilled signature template looks like)
        if sig is None:
            return None, "no-signature"
        node = sig.find(wire.q(wire.DS, "SignatureValue"))
        if node is None:
            return None, "empty"
        node.text = None
        desc = "sigvalue-empty:%s" % mut.get("target")
    elif where in ("sigvalue", "digest"):
        if sig is None:
            return None, "no-signature"
        node = sig.find(wire.q(wire.DS, "SignatureValue")) if where == "sigvalue" else \
            sig.find(".//" + wire.q(wire.DS, "DigestValue"))
        if node is None or not (node.text or "").strip():
            return None, "empty"
        txt = node.text.strip()
        # never the last characters (padding bits of base64 may be insignificant)
        node.text = _alter_char(txt, r.randrange(max(1, len(txt) - 4)), r, B64)
        desc = "%s:%s" % (where, mut.get("target"))
    elif where in ("text", "attr"):
        # inside `target` but outside every ds:Signature element
        sigs = set()
        for s in target.iter(wire.q(wire.DS, "Signature")):
            for d in s.iter():
                sigs.add(d)
        enc = set()
        for s in target.iter(wire.q(wire.XENC, "EncryptedData")):
            for d in s.iter():
                enc.add(d)
        # when the target is the response, content of a nested assertion counts as response content
        cands = [e for e in target.iter() if e not in sigs and e not in enc]
        if where == "text":
            cands = [e for e in cands if (e.text or "").strip()]
            if not cands:
                return None, "no-text"
            e = cands[r.randrange(len(cands))]
            e.text = _alter_char(e.text, r.randrange(len(e.text)), r)
            desc = "text:%s:%s" % (mut.get("target"), e.tag.rsplit("}", 1)[-1])
        else:
            cands = [(e, k) for e in cands for k in e.attrib if k not in ("ID",)]
            if not cands:
                return None, "no-attr"
            e, k = cands[r.randrange(len(cands))]
            v = e.get(k)
            if not v:
                return None, "empty-attr"
            e.set(k, _alter_char(v, r.randrange(len(v)), r))
            desc = "attr:%s:%s@%s" % (mut.get("target"), e.tag.rsplit("}", 1)[-1], k)
    elif where == "restyle-instant":
        # the IssueInstant of the message element written as the SAME instant with a UTC offset designator
        if target.tag == wire.q(wire.SOAPENV, "Envelope"):
            body = target.find(wire.q(wire.SOAPENV, "Body"))
            if body is None or len(body) != 1:
                return None, "no-target"
            target = body[0]
        ep_ = wire.ts_epoch(target.get("IssueInstant"))
        if ep_ is None:
            return None, "no-instant"
        target.set("IssueInstant", wire.fmt_ts(ep_, mut.get("style", "off+14:00")))
        desc = "restyle-instant:%s" % mut.get("style", "off+14:00")
    elif where == "required-attr":
        # a schema-required attribute of the message element itself left empty or out
        if target.tag == wire.q(wire.SOAPENV, "Envelope"):
            body = target.find(wire.q(wire.SOAPENV, "Body"))
            if body is None or len(body) != 1:
                return None, "no-target"
            target = body[0]
        k = mut.get("attr") or r.pick(["ID", "ID", "Version", "IssueInstant"])
        if k not in target.attrib:
            return None, "no-attr"
        if mut.get("mode", "empty") == "empty":
            target.set(k, "")
        else:
            del target.attrib[k]
        desc = "required-attr:%s:%s" % (k, mut.get("mode", "empty"))
    elif where == "outside":
        # content of the response that is NOT inside `target` (the signed assertion)
        inside = set(target.iter())
        cands = [(e, k) for e in root.iter() if e not in inside for k in e.attrib if k != "ID"]
        if not cands:
            return None, "no-outside"
        e, k = cands[r.randrange(len(cands))]
        v = e.get(k)
        e.set(k, _alter_char(v, r.randrange(len(v)), r))
        desc = "outside:%s@%s" % (e.tag.rsplit("}", 1)[-1], k)
    else:
        return None, "unknown-where"
    return ET.tostring(root, encoding="utf-8"), desc


def mutate_value(value, binding, mut, r):
    """Apply a transport-level or XML-level mutation to a binding parameter value."""
    k = mut["k"]
    if k == "truncate":
        cut = int(len(value) * mut.get("frac", 0.5))
        return value[:cut], "truncate@%d/%d" % (cut, len(value))
    if k == "b64char":
        return _alter_char(value, r.randrange(len(value)), r, B64), "b64char"
    if k == "xml":
        try:
            if binding == "redirect":
                xml = wire.inflate_b64(value)
            elif binding == "post":
                xml = base64.b64decode(value)
            else:
                xml = value if isinstance(value, bytes) else value.encode("utf-8")
        except Exception:
            return value, "undecodable"
        new, desc = mutate_xml(xml, mut, r)
        if new is None:
            return value, "nomut:" + desc
        if binding == "redirect":
            return wire.deflate_b64(new), desc
        if binding == "post":
            return base64.b64encode(new).decode("ascii"), desc
        return new.decode("utf-8"), desc
    return value, "nomut"


# ----------------------------------------------------------------------------- ground truth

def decode_value(value, binding):
    if binding == "redirect":
        return wire.inflate_b64(value)
    if binding in ("post", "artifact"):
        # (artifact: what the application hands over after it resolved the artifact - the message, base64 coded)
        return base64.b64decode(value, validate=False)
    if binding == "soap":
        return wire.soap_body(value)
    raise ValueError(binding)


def signature_truth(xml, node_name, node_id, candidates):
    """Which fixture keys does the enveloped signature of element (node_name, node_id) verify
    under, according to a healthy tool?  -> sorted list of labels."""
    ok = []
    for lab in sorted(candidates):
        try:
            good, _, _ = simxmlsec.verify_document(xml, fixture_pub(label_index(lab)), node_name,
                                                   "ID", node_id)
        except simxmlsec.ToolError:
            good = False
        if good:
            ok.append(lab)
    return ok


ALL_LABELS = ["k%d" % i for i in range(12)]


def embedded_cert_label(xml, tag, ident):
    """Label of the fixture key whose certificate is embedded in the element's KeyInfo."""
    try:
        root = ET.fromstring(xml)
    except ET.ParseError:
        return None
    for e in root.iter(tag):
        if e.get("ID") == ident:
            sig = _sig_of(e)
            if sig is None:
                return None
            c = sig.find(".//" + wire.q(wire.DS, "X509Certificate"))
            if c is None:
                return None
            body = "".join((c.text or "").split())
            for i in range(12):
                if cert_b64(i) == body:
                    return "k%d" % i
            return "unknown"
    return None


# ----------------------------------------------------------------------------- the engine

class Flow(object):
    def __init__(self, fid):
        self.fid = fid
        self.sp = None
        self.idp = None
        self.reqid = None
        self.relay = None
        self.request = None      # message dict
        self.parsed = {}         # idp name -> (request object, binding)
        self.responses = []      # message dicts
        self.aq = None
        self.lo = None


class FedSim(object):
    def __init__(self, scenario):
        self.sc = scenario
        self.world = World(scenario["seed"], scenario.get("tz"))
        if scenario.get("tool_version"):
            self.world.tool.version_banner = ("xmlsec1 %s (verif-sim)\n" % scenario["tool_version"]).encode()
        self.truth = {s["name"]: copy.deepcopy(s) for s in scenario["nodes"]}
        self.views = copy.deepcopy(scenario.get("views") or {})
        self.nodes = {}
        self.flows = {}
        self.history = []
        self.notes = []
        self.counters = {}
        self.step = 0

    # ------------------------------------------------------------------ helpers
    def count(self, key, n=1):
        self.counters[key] = self.counters.get(key, 0) + n

    def view_of(self, name):
        """Peer specs as node `name` currently knows them."""
        me = self.truth[name]
        v = self.views.get(name)
        res = []
        for other in self.truth.values():
            if other["name"] == name:
                continue
            if other["kind"] == me["kind"]:
                continue
            if v is not None and other["name"] in v:
                if v[other["name"]] is None:
                    continue        # entity missing from this node's metadata
                res.append(v[other["name"]])
            else:
                res.append(other)
        return res

    def freeze_views(self, name):
        """Pin node `name`'s current knowledge of its peers (so later truth changes are stale)."""
        v = self.views.setdefault(name, {})
        me = self.truth[name]
        for other in self.truth.values():
            if other["name"] != name and other["kind"] != me["kind"] and other["name"] not in v:
                v[other["name"]] = copy.deepcopy(other)

    def build_node(self, name):
        spec = self.truth[name]
        old = self.nodes.get(name)
        if spec["kind"] == "idp":
            if old is not None:
                old.close()
            self.nodes[name] = fed.IdPNode(self.world, spec, self.view_of(name))
        else:
            n = fed.SPNode(self.world, spec, self.view_of(name))
            if old is not None:
                n.outstanding = old.outstanding
            self.nodes[name] = n

    def flow(self, fid):
        if fid not in self.flows:
            self.flows[fid] = Flow(fid)
        return self.flows[fid]

    def node_by_endpoint(self, url):
        for n in self.nodes.values():
            for k, u in n.endpoints.items():
                if u == url:
                    return n, k
        return None, None

    # ------------------------------------------------------------------ run
    def run(self):
        from oracles import fedrules
        with self.world as w:
            for name, off in (self.sc.get("skew") or {}).items():
                w.clock.skew(name, off)
            if self.sc.get("tz"):
                self.count("fault.local-time-zone")
            for name in self.truth:
                self.build_node(name)
            for i, ev in enumerate(self.sc["events"]):
                self.step = i
                if "t" in ev:
                    w.clock.set(seams.SIM_EPOCH + ev["t"])
                fn = getattr(self, "ev_" + ev["k"])
                w.tool.fault_hook = None
                w.tool.post_hook = None
                w.tool.tag = "e%d" % i
                rec = fn(ev, i)
                if rec is not None:
                    rec["i"] = i
                    rec["k"] = ev["k"]
                    rec["t"] = w.clock.t - seams.SIM_EPOCH
                    fedrules.judge(self, ev, rec)
                    self.history.append(rec)
            for n in self.nodes.values():
                n.close()
        return self

    # ------------------------------------------------------------------ events: SP side
    def ev_start(self, ev, i):
        sp = self.nodes.get(ev["sp"])
        idp_name = ev["idp"]
        if sp is None or idp_name not in self.truth:
            return None
        fl = self.flow(ev["f"])
        fl.sp, fl.idp = ev["sp"], idp_name
        fl.relay = ev.get("relay", "rs-%d" % ev["f"])
        rb = ev.get("rb", "redirect")
        rec = {"sp": sp.name, "idp": idp_name, "f": ev["f"], "rb": rb}
        kwargs = {}
        if ev.get("sigalg"):
            kwargs["sign_alg"] = ev["sigalg"]
        if ev.get("digalg"):
            kwargs["digest_alg"] = ev["digalg"]
        if ev.get("nameid_format") is not None:
            kwargs["nameid_format"] = ev["nameid_format"]
        if ev.get("resp_binding"):
            kwargs["response_binding"] = BIND[ev["resp_binding"]]
        try:
            with self.world.on(sp.name):
                reqid, info = sp.client.prepare_for_authenticate(
                    entityid=fed.idp_entity(idp_name), relay_state=fl.relay, binding=BIND[rb],
                    sign=ev.get("sign"), **kwargs)
        except Exception as e:
            rec["error"] = type(e).__name__
            self.count("start.error." + type(e).__name__)
            return rec
        fl.reqid = reqid
        came_from = "/app/%s/%d" % (sp.name, ev["f"])
        sp.outstanding[reqid] = came_from
        msg = self.capture(info, rb, "SAMLRequest", sp.name)
        msg["kind"] = "authn_request"
        msg["signed_by"] = "k%d" % sp.spec.get("actual_key", sp.spec["key"]) \
            if ev.get("sign") or sp.spec.get("sign_requests") else None
        fl.request = msg
        rec.update({"reqid": reqid, "dest": msg["dest"], "ok": True})
        self.count("start")
        return rec

    def ev_mkreq(self, ev, i):
        """SP creates a logout request or an attribute query for an IdP/AA."""
        if ev.get("direction") == "idp2sp":
            return self.mkreq_idp2sp(ev, i)
        sp = self.nodes.get(ev["sp"])
        idp_name = ev["idp"]
        if sp is None or idp_name not in self.truth:
            return None
        fl = self.flow(ev["f"])
        fl.sp, fl.idp = ev["sp"], idp_name
        fl.relay = "rs-%d" % ev["f"]
        kind = ev["kind"]
        b = ev.get("rb", "soap")
        ep = fed.idp_endpoints(idp_name)
        if kind != "logout_request":
            b = "soap"
        dest = ep[REQ_KIND[kind][0] + b]
        name_id = saml.NameID(text=ev.get("subject", "subj-%d" % ev["f"]),
                              format=saml.NAMEID_FORMAT_PERSISTENT,
                              sp_name_qualifier=sp.entity_id)
        want_sign = bool(ev.get("sign"))
        # another product's request that leaves out the optional Destination attribute: built unsigned, the
        # attribute removed, then signed explicitly (POST / SOAP carry the signature in the document)
        no_dest = bool(ev.get("no_dest")) and b != "redirect"
        sign = want_sign and not no_dest
        rec = {"sp": sp.name, "idp": idp_name, "f": ev["f"], "rb": b, "kind": kind}
        try:
            with self.world.on(sp.name):
                alg = {"sign_alg": ev.get("sigalg"), "digest_alg": ev.get("digalg")}
                if kind == "logout_request":
                    reqid, req = sp.client.create_logout_request(dest, fed.idp_entity(idp_name), name_id=name_id,
                                                                 sign=sign, **alg)
                elif kind == "attribute_query":
                    reqid, req = sp.client.create_attribute_query(dest, name_id=name_id, sign=sign, **alg)
                elif kind == "manage_name_id_request":
                    reqid, req = sp.client.create_manage_name_id_request(dest, name_id=name_id, sign=sign,
                                                                         new_id=samlp.NewID(text="new-%d" % ev["f"]), **alg)
                elif kind == "name_id_mapping_request":
                    reqid, req = sp.client.create_name_id_mapping_request(
                        samlp.NameIDPolicy(format=saml.NAMEID_FORMAT_PERSISTENT, sp_name_qualifier=sp.entity_id),
                        name_id=name_id, destination=dest, sign=sign, **alg)
                elif kind == "authn_query":
                    reqid, req = sp.client.create_authn_query(saml.Subject(name_id=name_id), destination=dest,
                                                              sign=sign, **alg)
                elif kind == "authz_decision_query":
                    reqid, req = sp.client.create_authz_decision_query(
                        dest, [saml.Action(text="read", namespace="urn:oasis:names:tc:SAML:1.0:action:rwedc")],
                        resource="https://res.sim.example/doc/%d" % ev["f"], subject=saml.Subject(name_id=name_id),
                        sign=sign, **alg)
                else:
                    raise ValueError(kind)
                if no_dest:
                    req.destination = None
                    self.count("dialect.request-without-destination")
                    if want_sign:
                        req = sp.client.sign(req, **alg)
                info = sp.client.apply_binding(BIND[b], "%s" % req, dest, fl.relay)
        except Exception as e:
            rec["error"] = type(e).__name__
            self.count("mkreq.error." + type(e).__name__)
            return rec
        fl.reqid = reqid
        msg = self.capture(info, b, "SAMLRequest", sp.name)
        msg["kind"] = kind
        msg["signed_by"] = "k%d" % sp.spec.get("actual_key", sp.spec["key"]) if want_sign else None
        fl.request = msg
        rec.update({"reqid": reqid, "dest": msg["dest"], "ok": True})
        self.count("mkreq." + kind)
        return rec

    def mkreq_idp2sp(self, ev, i):
        """The IdP asks an SP to terminate a session (single logout, IdP -> SP)."""
        idp = self.nodes.get(ev["idp"])
        sp_name = ev["sp"]
        if idp is None or sp_name not in self.truth:
            return None
        sp_spec = None
        for p_ in idp.peer_view.values():
            if p_["name"] == sp_name:
                sp_spec = p_
        if sp_spec is None:
            return None
        fl = self.flow(ev["f"])
        fl.sp, fl.idp = sp_name, ev["idp"]
        fl.relay = "rs-%d" % ev["f"]
        fl.req_target = sp_name
        b = ev.get("rb", "soap")
        dest = fed.sp_endpoints(sp_spec)["slo_" + b]
        name_id = saml.NameID(text=ev.get("subject", "subj-%d" % ev["f"]), format=saml.NAMEID_FORMAT_PERSISTENT,
                              sp_name_qualifier=fed.sp_entity(sp_spec))
        want_sign = bool(ev.get("sign"))
        no_dest = bool(ev.get("no_dest")) and b != "redirect"
        sign = want_sign and not no_dest
        rec = {"sp": sp_name, "idp": idp.name, "f": ev["f"], "rb": b, "kind": "logout_request", "direction": "idp2sp"}
        try:
            with self.world.on(idp.name):
                reqid, req = idp.server.create_logout_request(dest, fed.sp_entity(sp_spec), name_id=name_id, sign=sign,
                                                              sign_alg=ev.get("sigalg"), digest_alg=ev.get("digalg"))
                if no_dest:
                    req.destination = None
                    self.count("dialect.request-without-destination")
                    if want_sign:
                        req = idp.server.sign(req, sign_alg=ev.get("sigalg"), digest_alg=ev.get("digalg"))
                info = idp.server.apply_binding(BIND[b], "%s" % req, dest, fl.relay)
        except Exception as e:
            rec["error"] = type(e).__name__
            self.count("mkreq.error." + type(e).__name__)
            return rec
        msg = self.capture(info, b, "SAMLRequest", idp.name)
        msg["kind"] = "logout_request"
        msg["signed_by"] = "k%d" % idp.spec.get("actual_key", idp.spec["key"]) if want_sign else None
        fl.request = msg
        rec.update({"reqid": reqid, "dest": msg["dest"], "ok": True})
        self.count("mkreq.logout_request.idp2sp")
        return rec

    def capture(self, info, binding, param, sender):
        """Read what pysaml2's apply_binding produced the way a user agent / HTTP peer would."""
        if binding == "redirect":
            url = dict(info["headers"])["Location"]
            base, pairs = wire.read_redirect(url)
            return {"binding": binding, "dest": base, "fields": dict(pairs), "from": sender,
                    "param": param}
        if binding == "post":
            action, fields = wire.read_post_form(info["data"])
            return {"binding": binding, "dest": action, "fields": dict(fields), "from": sender,
                    "param": param}
        if binding == "soap":
            return {"binding": binding, "dest": info["url"], "fields": {param: info["data"]},
                    "from": sender, "param": param}
        raise ValueError(binding)

    # ------------------------------------------------------------------ events: request delivery
    def ev_req(self, ev, i):
        fl = self.flows.get(ev["f"])
        if fl is None or fl.request is None:
            return None
        msg = fl.request
        to = ev.get("to") or getattr(fl, "req_target", None) or fl.idp
        idp = self.nodes.get(to)       # the receiving node (an IdP, or an SP for IdP -> SP logout requests)
        if idp is None:
            return None
        kindmsg = msg.get("kind", "authn_request")
        prefix = REQ_KIND[kindmsg][0]
        via = ev.get("via") or (prefix + msg["binding"])
        via_binding = "redirect" if via.endswith("redirect") else ("soap" if via.endswith("soap") else "post")
        value = msg["fields"].get("SAMLRequest")
        if value is None:
            return None
        mutdesc = None
        if ev.get("mut"):
            value, mutdesc = mutate_value(value, msg["binding"], ev["mut"], mkrng(ev.get("sub", 0), "mut"))
        rec = {"f": ev["f"], "to": to, "via": via, "mut": mutdesc, "kindmsg": kindmsg,
               "msg_binding": msg["binding"], "via_binding": via_binding, "value": value,
               "signed_by": msg.get("signed_by"), "from": msg["from"],
               "now": int(self.world.clock.now(to)), "tf": ev.get("tf")}
        if to != (getattr(fl, "req_target", None) or fl.idp):
            self.count("fault.misdeliver-other-node")
        if ev.get("via"):
            self.count("fault.other-endpoint")
        if mutdesc:
            self.count("mut." + mutdesc.split(":")[0].split("@")[0])
        self.install_tool_faults(ev)
        n0 = len(self.world.tool.invocations)
        try:
            with self.world.on(to):
                if idp.kind == "sp":
                    if not via.startswith("slo_"):
                        return None
                    req = idp.client.parse_logout_request(value, BIND[via_binding])
                else:
                    pk = PREFIX_KIND.get(via.split("_")[0] + "_")
                    if pk is None or via not in idp.endpoints:
                        return None
                    req = getattr(idp.server, pk[2])(value, BIND[via_binding])
            rec["handed"] = req is not None
            rec["exc"] = None
            if req is not None:
                rec["handed_as"] = via.split("_")[0]
                if via.startswith("sso_"):
                    fl.parsed[to] = (req, via_binding)
                else:
                    fl.parsed_other = (to, req, via_binding)
                rec["req_id"] = req.message.id
        except Exception as e:
            rec["handed"] = False
            rec["exc"] = type(e).__name__
        rec["tool"] = self.tool_slice(n0)
        self.count("req.handed" if rec["handed"] else "req.refused")
        return rec

    # ------------------------------------------------------------------ events: IdP answers
    def ev_answer(self, ev, i):
        fl = self.flows.get(ev["f"])
        idp_name = ev.get("idp") or (fl.idp if fl else None)
        if fl is None or idp_name not in fl.parsed:
            return None
        idp = self.nodes.get(idp_name)
        if idp is None:
            return None
        req, _ = fl.parsed[idp_name]
        rec = {"f": ev["f"], "idp": idp_name}
        try:
            with self.world.on(idp_name):
                ra = idp.server.response_args(req.message)
        except Exception as e:
            rec["error"] = "response_args:" + type(e).__name__
            self.count("answer.noargs")
            return rec
        return self.make_response(ev, fl, idp, ra, rec)

    def ev_aq_answer(self, ev, i):
        """The attribute authority answers the attribute query of flow f over SOAP."""
        fl = self.flows.get(ev["f"])
        po = getattr(fl, "parsed_other", None) if fl else None
        if not po or not po[0] in self.nodes:
            return None
        idp = self.nodes[po[0]]
        req = po[1]
        if type(req.message).__name__ != "AttributeQuery":
            return None
        p = ev.get("p") or {}
        identity = {k: list(v) for k, v in (p.get("identity") or {}).items()}
        srv = idp.server
        w = self.world
        rec = {"f": ev["f"], "idp": idp.name, "p": p, "aq": True}
        self.install_tool_faults(ev)
        n0 = len(w.tool.invocations)
        idp_now = int(w.clock.now(idp.name))
        rec["signing_key"] = "k%d" % idp.spec.get("actual_key", idp.spec["key"])
        try:
            with w.on(idp.name):
                ra = srv.response_args(req.message, [BINDING_SOAP])
                rec["sp_entity"] = ra["sp_entity_id"]
                nid = req.message.subject.name_id
                d = p.get("dialect")
                if d:
                    # another attribute authority's composition: built unsigned, audience restrictions set, then
                    # signed explicitly
                    resp = srv.create_attribute_response(identity, ra["in_response_to"], "", ra["sp_entity_id"],
                                                         name_id=nid, sign_assertion=False, sign_response=False)
                    a = resp.assertion[0] if isinstance(resp.assertion, list) else resp.assertion
                    if "audiences" in d:
                        a.conditions.audience_restriction = [
                            saml.AudienceRestriction(audience=[saml.Audience(
                                text=(ra["sp_entity_id"] if x == "$sp" else x)) for x in grp]) for grp in d["audiences"]]
                    if "issue_instant" in d:
                        # the answer's IssueInstant (offset from the authority's clock), everything else fresh
                        resp.issue_instant = wire.fmt_ts(idp_now + d["issue_instant"], d.get("style", "Z"))
                    to_sign = []
                    if p.get("sign_assertion"):
                        a.signature = pre_signature_part(a.id, srv.sec.my_cert, 1, sign_alg=p.get("sigalg"),
                                                         digest_alg=p.get("digalg"))
                        to_sign.append((class_name(a), a.id))
                    if p.get("sign_response"):
                        resp.signature = pre_signature_part(resp.id, srv.sec.my_cert, 1, sign_alg=p.get("sigalg"),
                                                            digest_alg=p.get("digalg"))
                        to_sign.append((class_name(resp), resp.id))
                    if to_sign:
                        resp = signed_instance_factory(resp, srv.sec, to_sign)
                    self.count("dialect.attribute-response")
                else:
                    xkw = {}
                    if p.get("encrypt"):
                        # the attribute authority is asked to encrypt the assertion for the querying SP
                        xkw["encrypt_assertion"] = True
                        if p.get("self_contained"):
                            xkw["encrypt_assertion_self_contained"] = True
                        self.count("aq_answer.encrypt-asked")
                    resp = srv.create_attribute_response(
                        identity, ra["in_response_to"], "", ra["sp_entity_id"], name_id=nid,
                        sign_assertion=bool(p.get("sign_assertion")), sign_response=bool(p.get("sign_response")),
                        sign_alg=p.get("sigalg"), digest_alg=p.get("digalg"), **xkw)
                http = srv.apply_binding(BINDING_SOAP, "%s" % resp, "", "", response=True)
        except Exception as e:
            rec["error"] = type(e).__name__
            rec["error_msg"] = str(e)[:200]
            rec["tool"] = self.tool_slice(n0)
            self.count("aq_answer.error." + type(e).__name__)
            try:
                rec["refusal_expected"] = fed.expected_release(identity, self.sp_view(idp, req.message.issuer.text.strip()) or {})[2]
            except Exception:
                pass
            if not ev.get("tf") and not ev.get("_benign"):
                ev2 = copy.deepcopy(ev)
                ev2["_benign"] = True
                ev2.setdefault("p", {})["identity"] = {k: ["plain%d" % j for j, _ in enumerate(v)]
                                                       for k, v in (p.get("identity") or {}).items()}
                n_before = len(fl.responses)
                rec2 = self.ev_aq_answer(ev2, i)
                rec["benign_ok"] = bool(rec2 and rec2.get("ok"))
                del fl.responses[n_before:]
            return rec
        rec["tool"] = self.tool_slice(n0)
        msg = {"binding": "soap", "dest": "", "fields": {"SAMLResponse": http["data"]}, "from": idp.name,
               "param": "SAMLResponse", "kind": "attribute_response", "answer": rec}
        msg["asked"] = {"identity": identity, "p": dict(p, name_id={"text": nid.text, "format": nid.format,
                                                                   "sp_name_qualifier": nid.sp_name_qualifier,
                                                                   "name_qualifier": nid.name_qualifier}),
                        "idp_now": idp_now, "sp_entity": ra["sp_entity_id"], "irt": ra["in_response_to"],
                        "issuer": idp.entity_id, "signing_key": rec["signing_key"], "attribute_response": True,
                        "sp_view": self.sp_view(idp, ra["sp_entity_id"])}
        try:
            msg["xml"] = decode_value(http["data"], "soap")
        except Exception:
            msg["xml"] = None
        fl.responses.append(msg)
        rec["r"] = len(fl.responses) - 1
        rec["ok"] = True
        self.count("aq_answer")
        return rec

    def ev_unsol(self, ev, i):
        idp = self.nodes.get(ev["idp"])
        sp_name = ev["sp"]
        if idp is None or sp_name not in self.truth:
            return None
        fl = self.flow(ev["f"])
        fl.sp, fl.idp = sp_name, ev["idp"]
        sp_spec = None
        for p in idp.peer_view.values():
            if p["name"] == sp_name:
                sp_spec = p
        if sp_spec is None:
            return None
        ra = {"in_response_to": ev.get("irt"), "sp_entity_id": fed.sp_entity(sp_spec),
              "name_id_policy": None, "binding": BINDING_HTTP_POST,
              "destination": fed.sp_endpoints(sp_spec)["acs_post"]}
        rec = {"f": ev["f"], "idp": ev["idp"], "unsolicited": True}
        return self.make_response(ev, fl, idp, ra, rec)

    def sp_view(self, idp, sp_entity_id):
        """The spec of the SP with that entity id as the IdP node knows it (its metadata view)."""
        for v in idp.peer_view.values():
            if v.get("kind") == "sp" and fed.sp_entity(v) == sp_entity_id:
                return {"req_attrs": v.get("req_attrs"), "opt_attrs": v.get("opt_attrs"),
                        "entity_category": v.get("entity_category")}
        return None

    def make_response(self, ev, fl, idp, ra, rec):
        """Honest or dialect composition of an authn response.  ev['p'] = answer parameters."""
        p = ev.get("p") or {}
        w = self.world
        srv = idp.server
        identity = {k: list(v) for k, v in (p.get("identity") or {}).items()}
        rec.update({"irt": ra.get("in_response_to"), "dest": ra.get("destination"),
                    "sp_entity": ra.get("sp_entity_id"), "p": p})
        lifetime = p.get("lifetime", 900)
        pol_conf = {"default": {"lifetime": {"seconds": lifetime}, "attribute_restrictions": None,
                                "name_form": NAME_FORMAT_URI,
                                "nameid_format": p.get("nameid_format") or saml.NAMEID_FORMAT_TRANSIENT}}
        if p.get("attr_restrictions"):
            # the operator's release policy names attributes and, for some, patterns their values must match
            pol_conf["default"]["attribute_restrictions"] = {k: (list(v) if v else None) for k, v in p["attr_restrictions"].items()}
            self.count("probe.attribute-restrictions-policy")
        if p.get("entity_categories"):
            # the IdP releases by entity category (policy option entity_categories names the category profiles)
            pol_conf["default"]["entity_categories"] = list(p["entity_categories"])
            self.count("probe.entity-category-policy")
        if p.get("sp_policy_section") and ra.get("sp_entity_id"):
            # a section of its own for this SP that sets one option only: everything else comes from "default"
            pol_conf[ra["sp_entity_id"]] = {"nameid_format": pol_conf["default"]["nameid_format"]}
            self.count("probe.policy-section-for-sp")
        pol = Policy(pol_conf)
        authn = {"class_ref": p.get("authn_class", fed.AUTHN_PASSWORD), "authn_auth": idp.entity_id}
        sign_r, sign_a, enc = bool(p.get("sign_response")), bool(p.get("sign_assertion")), bool(p.get("encrypt"))
        dialect = p.get("dialect")
        self.install_tool_faults(ev)
        if p.get("handover"):
            self.install_handover(p["handover"], ev.get("sub", 0))
        n0 = len(w.tool.invocations)
        idp_now = int(w.clock.now(idp.name))
        rec["idp_now"] = idp_now
        rec["signing_key"] = "k%d" % idp.spec.get("actual_key", idp.spec["key"])
        try:
            with w.on(idp.name):
                if p.get("error_status"):
                    resp = srv.create_error_response(ra["in_response_to"], ra["destination"],
                                                     (p["error_status"], "denied"),
                                                     sign=sign_r, sign_alg=p.get("sigalg"),
                                                     digest_alg=p.get("digalg"))
                elif dialect:
                    resp = self.dialect_response(idp, ra, identity, pol, authn, p, dialect, idp_now)
                else:
                    kw = {}
                    if p.get("name_id"):
                        kw["name_id"] = saml.NameID(**p["name_id"])
                    else:
                        kw["userid"] = p.get("userid", "user0")
                    if p.get("session_nooa") is not None:
                        kw["session_not_on_or_after"] = wire.fmt_ts(idp_now + p["session_nooa"])
                    if p.get("enc_cert") is not None:
                        kw["encrypt_cert_assertion"] = fed.cert_pem(p["enc_cert"])     # supplied with the request
                    if p.get("pefim"):
                        kw["pefim"] = True
                    if p.get("enc_cert_advice") is not None:
                        # PEFIM: the certificate of the SP behind the proxy came with the request; the attribute
                        # assertion in the Advice is for that key and for nobody else
                        kw["encrypt_cert_advice"] = fed.cert_pem(p["enc_cert_advice"])
                    if p.get("advice"):
                        kw["encrypted_advice_attributes"] = True
                    if p.get("encrypt", False) is not None:
                        kw["encrypt_assertion"] = enc
                    elif p.get("enc_arg") == "none":
                        kw["encrypt_assertion"] = None      # spelled out as "not decided by the caller"
                    # (otherwise the application leaves the argument out: the configuration decides)
                    if mkrng(ev.get("sub") or (1000 * ev["f"] + 7), "farg").chance(0.2):
                        # the IdP application uses the documented `farg` option to set one optional field of the
                        # bearer confirmation itself (its Address); the library completes InResponseTo and Recipient
                        kw["farg"] = {"assertion": {"subject": {"subject_confirmation": {
                            "subject_confirmation_data": {"address": "10.0.0.7"}}}}}
                        self.count("probe.farg-partial-confirmation-data")
                    if (sign_r or sign_a) and srv.sec.cert_handler.generate_cert():
                        self.count("probe.rolling-cert-branch")
                        if kw.get("pefim"):
                            self.count("probe.rolling-cert-pefim")
                    resp = srv.create_authn_response(
                        identity, authn=authn, sign_response=sign_r, sign_assertion=sign_a,
                        encrypt_assertion_self_contained=bool(p.get("self_contained", True)),
                        sign_alg=p.get("sigalg"), digest_alg=p.get("digalg"),
                        release_policy=pol, **dict(ra, **kw))
                http = srv.apply_binding(ra.get("binding") or BINDING_HTTP_POST, "%s" % resp,
                                         ra["destination"], fl.relay or "", response=True)
        except Exception as e:
            rec["error"] = type(e).__name__
            rec["error_msg"] = str(e)[:200]
            rec["tool"] = self.tool_slice(n0)
            rec["refusal_expected"] = fed.expected_release(identity, self.sp_view(idp, ra.get("sp_entity_id")) or {},
                                                               p.get("entity_categories"))[2]
            self.count("answer.error." + type(e).__name__)
            if not ev.get("tf") and not p.get("handover") and not ev.get("_benign"):
                # differential probe: does the same request succeed with bland content?  Then the failure
                # was caused by the *content* (C08: values are carried as data, for any content).
                ev2 = copy.deepcopy(ev)
                ev2["_benign"] = True
                p2 = ev2.setdefault("p", {})
                p2["identity"] = {k: ["plain%d" % j for j, _ in enumerate(v)] for k, v in (p.get("identity") or {}).items()}
                if p2.get("name_id"):
                    p2["name_id"] = dict(p2["name_id"], text="plainsubject")
                rec2 = self.make_response(ev2, fl, idp, ra, {"f": rec.get("f"), "idp": idp.name})
                rec["benign_ok"] = bool(rec2.get("ok"))
                if rec2.get("ok"):
                    fl.responses.pop()      # the probe's response is not part of the run
                elif (p.get("sigalg") or p.get("digalg")) and not p.get("dialect"):
                    # second probe: the same request with the default algorithms.  If that works, the explicit
                    # (supported) algorithm choice made the provider fail (C08: every digest/signature setting)
                    ev3 = copy.deepcopy(ev)
                    ev3["_benign"] = True
                    ev3.setdefault("p", {}).pop("sigalg", None)
                    ev3["p"].pop("digalg", None)
                    rec3 = self.make_response(ev3, fl, idp, ra, {"f": rec.get("f"), "idp": idp.name})
                    rec["default_alg_ok"] = bool(rec3.get("ok"))
                    if rec3.get("ok"):
                        fl.responses.pop()
            return rec
        rec["tool"] = self.tool_slice(n0)
        binding = "post" if (ra.get("binding") or BINDING_HTTP_POST) == BINDING_HTTP_POST else "redirect"
        msg = self.capture(http, binding, "SAMLResponse", idp.name)
        msg["kind"] = "response"
        msg["answer"] = rec
        msg["asked"] = {"identity": identity, "p": p, "idp_now": idp_now, "sp_entity": ra.get("sp_entity_id"),
                        "irt": ra.get("in_response_to"), "sp_view": self.sp_view(idp, ra.get("sp_entity_id")),
                        "issuer": ((p.get("dialect") or {}).get("resp_issuer") or idp.entity_id),
                        "signing_key": rec["signing_key"]}
        try:
            msg["xml"] = decode_value(msg["fields"]["SAMLResponse"], binding)
        except Exception:
            msg["xml"] = None
        fl.responses.append(msg)
        rec["r"] = len(fl.responses) - 1
        rec["ok"] = True
        rec["wire"] = msg["fields"].get("SAMLResponse")
        self.count("answer")
        return rec

    def dialect_response(self, idp, ra, identity, pol, authn, p, d, idp_now):
        """Another IdP product's *legal* composition of the same public building blocks: build
        unsigned, adjust the returned object, then sign / encrypt explicitly."""
        srv = idp.server
        kw = {}
        if p.get("name_id"):
            kw["name_id"] = saml.NameID(**p["name_id"])
        else:
            kw["userid"] = p.get("userid", "user0")
        resp = srv.create_authn_response(identity, authn=authn, sign_response=False,
                                         sign_assertion=False, encrypt_assertion=False,
                                         release_policy=pol, **dict(ra, **kw))
        a = resp.assertion
        if isinstance(a, list):
            a = a[0]
        style = d.get("style", "Z")
        cond = a.conditions

        def ts(off):
            return wire.fmt_ts(idp_now + off, style)

        if "cond_nb" in d:
            cond.not_before = None if d["cond_nb"] is None else ts(d["cond_nb"])
        if "cond_nooa" in d:
            cond.not_on_or_after = None if d["cond_nooa"] is None else ts(d["cond_nooa"])
        if "audiences" in d:
            # list of lists of audience strings; "$sp" is replaced by the SP's entity id
            cond.audience_restriction = [
                saml.AudienceRestriction(audience=[saml.Audience(text=(ra["sp_entity_id"] if x == "$sp" else x))
                                                   for x in grp]) for grp in d["audiences"]]
        scs = a.subject.subject_confirmation
        scd = scs[0].subject_confirmation_data
        if "scd_nb" in d:
            scd.not_before = None if d["scd_nb"] is None else ts(d["scd_nb"])
        if "scd_nooa" in d:
            scd.not_on_or_after = None if d["scd_nooa"] is None else ts(d["scd_nooa"])
        if "scd_irt" in d:
            scd.in_response_to = d["scd_irt"]
        if "recipient" in d:
            scd.recipient = d["recipient"]
        if d.get("scd_address"):
            scd.address = d["scd_address"]      # the optional Address attribute of the bearer confirmation
        if d.get("first_sc_nodata"):
            # a confirmation that carries no SubjectConfirmationData in front of the real one (schema-legal)
            scs.insert(0, saml.SubjectConfirmation(method=saml.SCM_BEARER))
        if d.get("second_sc"):
            s2 = d["second_sc"]
            data = saml.SubjectConfirmationData(
                in_response_to=s2.get("irt", scd.in_response_to),
                recipient=s2.get("recipient", scd.recipient),
                not_on_or_after=ts(s2["nooa"]) if s2.get("nooa") is not None else scd.not_on_or_after)
            scs.append(saml.SubjectConfirmation(method=saml.SCM_BEARER, subject_confirmation_data=data))
        if "session_nooa" in d and a.authn_statement:
            a.authn_statement[0].session_not_on_or_after = \
                None if d["session_nooa"] is None else ts(d["session_nooa"])
        if d.get("second_authn") and a.authn_statement:
            # one more AuthnStatement (saml-core allows several) with a session bound of its own
            import copy as _copy
            st2 = _copy.deepcopy(a.authn_statement[0])
            st2.session_not_on_or_after = ts(d["second_authn"]["session_nooa"])
            st2.session_index = "id-second-statement"
            a.authn_statement.append(st2)
        if "issue_instant" in d:
            resp.issue_instant = ts(d["issue_instant"])
        if "resp_irt" in d:
            resp.in_response_to = d["resp_irt"]
        if "destination" in d:
            resp.destination = d["destination"]
        if d.get("resp_issuer"):
            resp.issuer.text = d["resp_issuer"]
        if d.get("assertion_issuer"):
            a.issuer.text = d["assertion_issuer"]
        if d.get("restyle_all"):
            a.issue_instant = ts(0)
            if a.authn_statement:
                a.authn_statement[0].authn_instant = ts(0)
        sign_r, sign_a, enc = bool(p.get("sign_response")), bool(p.get("sign_assertion")), bool(p.get("encrypt"))
        sec = srv.sec
        if d.get("signed_advice"):
            # the attributes travel in an assertion of their own, signed, encrypted for the SP and carried in
            # the Advice of the main assertion (what Entity._response does for advice assertions, with the
            # signature that it only adds outside the PEFIM profile)
            from saml2_tophat.saml import Advice, EncryptedAssertion
            from saml2_tophat.samlp import response_from_string
            adv_resp = srv.create_authn_response(identity, authn=authn, sign_response=False, sign_assertion=False,
                                                 encrypt_assertion=False, release_policy=pol, **dict(ra, **kw))
            adv = adv_resp.assertion[0] if isinstance(adv_resp.assertion, list) else adv_resp.assertion
            a.attribute_statement = []
            adv_cert, adv_key_file = sec.my_cert, None
            if d.get("advice_issuer"):
                # an attribute assertion of ANOTHER federation member carried along (proxying): it names that
                # member as its Issuer and is signed either with that member's key (genuine) or with the
                # carrier's own key (a carrier vouching under somebody else's name)
                other = self.truth[d["advice_issuer"]]
                adv.issuer.text = fed.idp_entity(other["name"])
                if d.get("advice_key", "issuer") == "issuer":
                    adv_key_file = key_file(other["key"])
                    adv_cert = cert_b64(other["key"])
                self.count("dialect.advice-of-other-issuer." + d.get("advice_key", "issuer"))
            adv.signature = pre_signature_part(adv.id, adv_cert, 1, sign_alg=p.get("sigalg"),
                                               digest_alg=p.get("digalg"))
            a.advice = Advice()
            holder = EncryptedAssertion()
            holder.add_extension_element(adv)
            a.advice.encrypted_assertion = [holder]
            if adv_key_file:
                doc = sec.sign_statement("%s" % resp, node_name=class_name(adv), key_file=adv_key_file, node_id=adv.id)
            else:
                doc = signed_instance_factory("%s" % resp, sec, [(class_name(adv), adv.id)])
            xp = "".join("/*[local-name()=\"%s\"]" % v for v in
                         ["Response", "Assertion", "Advice", "EncryptedAssertion", "Assertion"])
            doc = srv._encrypt_assertion(None, ra["sp_entity_id"], doc, node_xpath=xp)
            resp = response_from_string(doc)
            a = resp.assertion[0] if isinstance(resp.assertion, list) else resp.assertion
        if not (sign_r or sign_a or enc):
            return resp
        if sign_a:
            a.signature = pre_signature_part(a.id, sec.my_cert, 1, sign_alg=p.get("sigalg"),
                                             digest_alg=p.get("digalg"))
        if enc:
            if sign_r:
                resp.signature = pre_signature_part(resp.id, sec.my_cert, 1, sign_alg=p.get("sigalg"),
                                                    digest_alg=p.get("digalg"))
            doc = pre_encrypt_assertion(resp)
            doc = "%s" % doc
            if sign_a:
                doc = signed_instance_factory(doc, sec, [(class_name(a), a.id)])
            doc = srv._encrypt_assertion(None, ra["sp_entity_id"], doc)
            pn = d.get("plain_next_to_encrypted")
            if pn is not None:
                # one more assertion, not encrypted, in the same Response (e.g. an authentication statement in
                # the open next to confidential attributes): every signature rule applies to it as well
                from saml2_tophat.samlp import response_from_string
                other = srv.create_authn_response({"displayName": ["plain-%s" % resp.id[-6:]]}, authn=authn,
                                                  sign_response=False, sign_assertion=False, encrypt_assertion=False,
                                                  release_policy=pol, **dict(ra, **kw))
                a2 = other.assertion[0] if isinstance(other.assertion, list) else other.assertion
                robj = response_from_string(doc)
                to_sign = []
                if pn.get("signed") == "other-key":
                    # the second assertion names this IdP as Issuer but is signed with somebody else's key (whose
                    # certificate it carries): trusted only under the keys of the Issuer it names
                    ok_ = int(pn.get("key", 9))
                    a2.signature = pre_signature_part(a2.id, cert_b64(ok_), 2, sign_alg=p.get("sigalg"),
                                                      digest_alg=p.get("digalg"))
                    if pn.get("where") == "wrapper":
                        robj.encrypted_assertion[0].add_extension_element(a2)
                    else:
                        robj.assertion = [a2]
                    self.count("dialect.plain-twin-signed-with-other-key")
                    out_ = sec.sign_statement("%s" % robj, node_name=class_name(a2), key_file=key_file(ok_), node_id=a2.id)
                    if sign_r:
                        out_ = signed_instance_factory(out_, sec, [(class_name(robj), robj.id)])
                    return out_
                if pn.get("signed"):
                    a2.signature = pre_signature_part(a2.id, sec.my_cert, 2, sign_alg=p.get("sigalg"),
                                                      digest_alg=p.get("digalg"))
                    to_sign.append((class_name(a2), a2.id))
                if pn.get("where") == "wrapper":
                    # ... inside the EncryptedAssertion element itself, after the EncryptedData: what comes out
                    # of that element when the SP opens it is two assertions, the decrypted one first
                    robj.encrypted_assertion[0].add_extension_element(a2)
                    self.count("dialect.plain-inside-encrypted-wrapper")
                else:
                    robj.assertion = [a2]
                self.count("dialect.plain-next-to-encrypted")
                if pn.get("signed") == "bogus":
                    # signed, then edited: a signature that is present and does not verify
                    out_ = signed_instance_factory(robj, sec, to_sign)
                    tag_ = "plain-%s" % resp.id[-6:]
                    out_ = ("%s" % out_).replace(tag_, "plaiN-" + tag_[6:])
                    self.count("dialect.plain-twin-bogus-signature")
                    if sign_r:
                        out_ = signed_instance_factory(out_, sec, [(class_name(robj), robj.id)])
                    return out_
                if sign_r:
                    to_sign.append((class_name(robj), robj.id))
                return signed_instance_factory(robj, sec, to_sign) if to_sign else robj
            if sign_r:
                doc = signed_instance_factory(doc, sec, [(class_name(resp), resp.id)])
            return doc
        to_sign = []
        if sign_a:
            to_sign.append((class_name(a), a.id))
        if sign_r:
            resp.signature = pre_signature_part(resp.id, sec.my_cert, 1, sign_alg=p.get("sigalg"),
                                                digest_alg=p.get("digalg"))
            to_sign.append((class_name(resp), resp.id))
        return signed_instance_factory(resp, sec, to_sign)

    # ------------------------------------------------------------------ tool faults
    def install_tool_faults(self, ev):
        plan = ev.get("tf")
        if not plan:
            return
        tool = self.world.tool

        def hook(inv, plan=plan):
            for f in plan:
                if f["op"] != inv["op"]:
                    continue
                o = f.get("ord", "all")
                # "all", one ordinal, or "N+" = the N-th invocation of that operation and every later one
                if o == "all" or o == inv["ord"] or (isinstance(o, str) and o.endswith("+") and inv["ord"] >= int(o[:-1])):
                    self.count("tf.%s.%s" % (inv["op"], f["mode"]))
                    return {"mode": f["mode"], "variant": f.get("variant", 0)}
            return None
        tool.fault_hook = hook

    def install_handover(self, h, sub):
        """After a healthy --sign of the assertion, corrupt the hand-over file before pysaml2
        reads it back (and before --encrypt sees it)."""
        tool = self.world.tool
        r = mkrng(sub, "handover")
        state = {"done": False, "skip": int(h.get("skip", 0))}

        def post(inv, res):
            if state["done"] or inv["op"] != "sign" or not isinstance(res.output, bytes) or not res.output:
                return
            if inv.get("node_name") != (RESP_NODE if h.get("target") == "response" else ASSERT_NODE):
                return
            if state["skip"] > 0:
                state["skip"] -= 1      # not this one: a later signing run of the same kind
                return
            new, desc = mutate_xml(res.output, {"where": h["where"], "target": h.get("target", "assertion")}, r)
            if new is not None:
                res.output = new
                state["done"] = True
                inv["handover"] = desc
                self.count("handover." + h["where"])
        tool.post_hook = post

    def tool_slice(self, n0):
        out = []
        for inv in self.world.tool.invocations[n0:]:
            out.append({k: inv.get(k) for k in ("op", "ord", "node_id", "key", "healthy_ok",
                                                "genuine_ok", "fault", "handover", "covers") if inv.get(k) is not None})
        return out

    # ------------------------------------------------------------------ events: response delivery
    def ev_resp(self, ev, i):
        fl = self.flows.get(ev["f"])
        if fl is None or ev.get("r", 0) >= len(fl.responses):
            return None
        msg = fl.responses[ev.get("r", 0)]
        to = ev.get("to") or fl.sp
        sp = self.nodes.get(to)
        if sp is None or sp.kind != "sp":
            return None
        if msg["binding"] == "soap":
            via, via_binding = "soap_backchannel", "soap"
        else:
            via = ev.get("via") or ("acs_post" if msg["binding"] == "post" else "acs_redirect")
            via_binding = "redirect" if via.endswith("redirect") else "artifact" if via.endswith("artifact") else "post"
        value = msg["fields"].get("SAMLResponse")
        if value is None:
            return None
        mutdesc = None
        if ev.get("mut"):
            value, mutdesc = mutate_value(value, msg["binding"], ev["mut"], mkrng(ev.get("sub", 0), "mut"))
            if mutdesc.startswith("nomut") or mutdesc == "undecodable":
                mutdesc = None if value == msg["fields"].get("SAMLResponse") else mutdesc
        if via_binding == "artifact" and msg["binding"] in ("post", "redirect"):
            # the SP application resolved a SAMLart over the back channel and hands the message it got to
            # parse_authn_request_response(..., BINDING_HTTP_ARTIFACT)
            try:
                value = base64.b64encode(decode_value(value, msg["binding"])).decode("ascii")
                self.count("fault.delivered-through-artifact-handler")
            except Exception:
                pass
        elif ev.get("reencode") and msg["binding"] != via_binding and msg["binding"] in ("post", "redirect"):
            # a gateway in front of the SP hands the message to the handler of the SP's other binding,
            # re-encoded for it
            try:
                raw = decode_value(value, msg["binding"])
                value = wire.deflate_b64(raw) if via_binding == "redirect" else base64.b64encode(raw).decode("ascii")
                self.count("fault.reencode")
            except Exception:
                pass
        conv = None
        if ev.get("conv"):
            conv = {"entity_id": sp.entity_id, "remote_addr": "0.0.0.0"}
            if isinstance(ev["conv"], dict) and ev["conv"].get("remote_addr"):
                # the application knows the peer's network address and passes it on
                conv["remote_addr"] = ev["conv"]["remote_addr"]
                self.count("probe.conv-remote-addr")
            if mkrng(ev.get("sub", 0), "convshape").chance(0.35):
                # the application passes on the peer's address and nothing else (its own endpoints are known to the
                # library from the configuration): conversation information is supplied all the same
                del conv["entity_id"]
                self.count("probe.conv-address-only")
        w = self.world
        rec = {"f": ev["f"], "r": ev.get("r", 0), "to": to, "via": via, "via_binding": via_binding,
               "msg_binding": msg["binding"], "mut": mutdesc, "conv": bool(conv),
               "conv_addr_only": bool(conv) and "entity_id" not in conv,
               "now": int(w.clock.now(to)), "now_f": w.clock.now(to),
               "outstanding": sorted(sp.outstanding.keys()), "value": value,
               "asked": msg.get("asked"), "tf": ev.get("tf"), "dup": ev.get("dup", False), "req_keys": ev.get("req_keys"),
               "from": msg["from"], "msgkind": msg.get("kind", "response")}
        if ev.get("dup"):
            self.count("fault.dup-or-replay")
        if to != fl.sp:
            self.count("fault.misdeliver-other-sp")
        if ev.get("via"):
            self.count("fault.other-endpoint")
        if mutdesc:
            self.count("mut." + mutdesc.split(":")[0].split("@")[0])
        if msg.get("asked") and msg["asked"].get("idp_now") is not None:
            lag = rec["now"] - msg["asked"]["idp_now"]
            if abs(lag) > 5:
                self.count("fault.delay-or-skew>5s")
            if abs(lag) > 3600:
                self.count("fault.delay-or-skew>1h")
        self.install_tool_faults(ev)
        n0 = len(w.tool.invocations)
        subjects_before = self.sp_subjects(sp)
        out = {"accepted": False, "exc": None, "none": False}
        try:
            with w.on(to):
                if via_binding == "soap":
                    resp = sp.client.parse_attribute_query_response(value, BINDING_SOAP)
                else:
                    oc = None
                    if ev.get("req_keys") and fl.reqid:
                        # the SP sent a certificate of its own with the request and kept the private key(s) for it
                        oc = {fl.reqid: [{"key": open(key_file(k_)).read(), "cert": fed.cert_pem(k_)} for k_ in ev["req_keys"]]}
                        self.count("probe.request-specific-keys")
                    resp = sp.client.parse_authn_request_response(
                        value, BIND[via_binding], sp.outstanding, outstanding_certs=oc, conv_info=conv)
            if resp is None:
                out["none"] = True
            else:
                out.update(self.read_outcome(resp, to))
        except Exception as e:
            out["exc"] = type(e).__name__
            out["exc_msg"] = str(e)[:160]
        rec["tool"] = self.tool_slice(n0)
        subjects_after = self.sp_subjects(sp)
        out["new_session"] = sorted(set(subjects_after) - set(subjects_before))
        out["accepted"] = bool(out.get("identity")) or bool(out["new_session"])
        rec["out"] = out
        if out["accepted"]:
            irt = out.get("in_response_to")
            if irt in sp.outstanding:
                out["came_from_expected"] = sp.outstanding[irt]
                del sp.outstanding[irt]
                self.count("outstanding.consumed")
        self.count("resp.accept" if out["accepted"] else "resp.reject")
        return rec

    def sp_subjects(self, sp):
        try:
            with self.world.on(sp.name):
                return sorted(fedsubject(s) for s in sp.client.users.subjects())
        except Exception:
            return []

    def read_outcome(self, resp, node):
        o = {"identity": False}
        if not isinstance(resp, AuthnResponse):
            o["type"] = type(resp).__name__
            return o
        with self.world.on(node):
            try:
                nid = resp.name_id
                if nid is not None:
                    o["name_id"] = {"text": nid.text, "format": nid.format,
                                    "name_qualifier": nid.name_qualifier,
                                    "sp_name_qualifier": nid.sp_name_qualifier}
                o["ava"] = {k: list(v) for k, v in (resp.ava or {}).items()}
                o["identity"] = (nid is not None) or bool(resp.ava)
                o["in_response_to"] = resp.in_response_to
                o["came_from"] = resp.came_from
                try:
                    o["issuer"] = resp.issuer()
                except Exception:
                    o["issuer"] = None
                try:
                    si = resp.session_info()
                    o["session_nooa"] = si.get("not_on_or_after")
                    ai = si.get("authn_info") or []
                    o["authn_class"] = ai[0][0] if ai else None
                except Exception as e:
                    o["session_info_error"] = type(e).__name__
            except Exception as e:
                o["read_error"] = type(e).__name__
        return o

    # ------------------------------------------------------------------ events: world
    def ev_jump(self, ev, i):
        if ev["node"] not in self.truth:
            return None
        self.world.clock.jump(ev["node"], ev["delta"])
        self.count("fault.clock-jump")
        return {"node": ev["node"], "delta": ev["delta"]}

    def ev_publish(self, ev, i):
        """The long-running node serves its own metadata, generated from its live configuration object
        (what the example IdP / SP do in their /metadata handlers)."""
        n = self.nodes.get(ev["node"])
        if n is None:
            return None
        from saml2_tophat.metadata import entity_descriptor
        obj = getattr(n, "server", None) or getattr(n, "client", None)
        try:
            with self.world.on(n.name):
                entity_descriptor(obj.config)
            self.count("event.publish-own-metadata")
        except Exception as e:
            self.count("event.publish-own-metadata.error." + type(e).__name__)
        return {"node": ev["node"]}

    def ev_slo(self, ev, i):
        """The SP application logs a user out at an IdP with Saml2Client.do_logout() over the SOAP back channel: the
        client sends the LogoutRequest through its HTTP layer (simulated network: the IdP node answers, with a healthy
        tool of its own) and judges the IdP's answer inside the same call.  Tool faults of this event hit the SP's
        verification of that answer."""
        sp, idp = self.nodes.get(ev["sp"]), self.nodes.get(ev["idp"])
        if sp is None or idp is None or sp.kind != "sp":
            return None
        w = self.world
        tool = w.tool
        name_id = saml.NameID(text=ev.get("subject", "subj-slo-%d" % i), format=saml.NAMEID_FORMAT_PERSISTENT,
                              sp_name_qualifier=sp.entity_id)
        rec = {"sp": sp.name, "idp": idp.name, "sign_answer": bool(ev.get("sign_answer", True)), "exchanges": 0}

        def net(method, url, **kw):
            hook, tool.fault_hook = tool.fault_hook, None        # the IdP's machine is healthy
            try:
                with w.on(idp.name):
                    req = idp.server.parse_logout_request(kw.get("data"), BINDING_SOAP)
                    resp = idp.server.create_logout_response(req.message, [BINDING_SOAP], sign=rec["sign_answer"])
                    http = idp.server.apply_binding(BINDING_SOAP, "%s" % resp, "", "", response=True)
                rec["exchanges"] += 1
                return seams.SimHttpResponse(200, http["data"])
            except Exception as e:
                rec["idp_error"] = type(e).__name__
                return seams.SimHttpResponse(500, b"error")
            finally:
                tool.fault_hook = hook
        self.install_tool_faults(ev)
        n0 = len(tool.invocations)
        old_net = getattr(w, "net", None)
        w.net = net
        try:
            with w.on(sp.name):
                sp.client.do_logout(name_id, [idp.entity_id], "", None, sign=ev.get("sign_req"),
                                    expected_binding=BINDING_SOAP)
            rec["returned"] = True
            self.count("slo.returned")
        except Exception as e:
            rec["exc"] = type(e).__name__
            self.count("slo.raised." + type(e).__name__)
        finally:
            w.net = old_net
            tool.fault_hook = None
        rec["tool"] = [dict(t, node=inv.get("node")) for t, inv in zip(self.tool_slice(n0), tool.invocations[n0:])]
        return rec

    def ev_ecp(self, ev, i):
        """The SP application hands a PAOS / ECP answer (the response of flow f inside a SOAP envelope) to
        Saml2Client.parse_ecp_authn_response().  Whatever comes of it, it is a call on the long-lived client object
        that sits between other deliveries."""
        fl = self.flows.get(ev["f"])
        if fl is None or not fl.responses:
            return None
        msg = fl.responses[ev.get("r", 0) % len(fl.responses)]
        to = ev.get("to") or fl.sp
        sp = self.nodes.get(to)
        if sp is None or sp.kind != "sp" or not msg.get("xml"):
            return None
        rec = {"f": ev["f"], "to": to}
        try:
            with self.world.on(to):
                out = sp.client.parse_ecp_authn_response(wire.soap_wrap(msg["xml"]), sp.outstanding)
            rec["returned"] = out is not None
            self.count("event.ecp-answer.returned")
        except Exception as e:
            rec["exc"] = type(e).__name__
            self.count("event.ecp-answer.refused." + type(e).__name__)
        return rec

    def ev_restart(self, ev, i):
        n = self.nodes.get(ev["node"])
        if n is None:
            return None
        if n.kind == "sp":
            n.outstanding = {}
        self.build_node(ev["node"])
        self.count("fault.restart")
        return {"node": ev["node"]}

    def ev_refresh(self, ev, i):
        name = ev["node"]
        if name not in self.truth:
            return None
        v = self.views.get(name)
        if v:
            for k in list(v.keys()):
                if ev.get("peer") in (None, k):
                    del v[k]
        if ev.get("inplace") and name in self.nodes:
            # the long-lived process reloads the metadata files; its objects (and whatever they
            # remember) stay
            try:
                self.nodes[name].refresh_in_place(self.view_of(name))
                self.count("fault.metadata-refresh-in-place")
            except Exception as e:
                self.count("refresh.inplace.error." + type(e).__name__)
                self.build_node(name)
            return {"node": name, "inplace": True}
        self.build_node(name)
        self.count("fault.metadata-refresh")
        return {"node": name}

    def ev_freeze(self, ev, i):
        if ev["node"] not in self.truth:
            return None
        self.freeze_views(ev["node"])
        return None

    def ev_roll(self, ev, i):
        """IdP key roll-over: the IdP starts signing with a new key.  `keep_old` publishes the
        old certificate as an additional one.  Peers keep their (now stale) view until refresh."""
        name = ev["idp"]
        if name not in self.truth or self.truth[name]["kind"] != "idp":
            return None
        for other in self.truth:
            if self.truth[other]["kind"] == "sp":
                self.freeze_views(other)
        spec = self.truth[name]
        old = spec["key"]
        spec["key"] = ev["new_key"]
        spec["extra_certs"] = [old] if ev.get("keep_old") else []
        self.build_node(name)
        self.count("fault.key-roll")
        return {"idp": name, "old": old, "new": ev["new_key"]}

    def ev_misdeploy(self, ev, i):
        """The IdP's key file is replaced by another key while its published metadata (and,
        with cert='own', its certificate file) stay as they were."""
        name = ev.get("idp") or ev.get("node")
        if name not in self.truth:
            return None
        spec = self.truth[name]
        spec["actual_key"] = ev["key"]
        spec["actual_cert"] = ev.get("cert", "own")
        self.build_node(name)
        self.count("fault.misdeployed-key")
        return {"idp": name, "key": ev["key"]}

    def ev_setview(self, ev, i):
        """Directly set what `node` knows about `peer` (stale / missing / altered metadata)."""
        if ev["node"] not in self.truth or ev["peer"] not in self.truth:
            return None
        self.views.setdefault(ev["node"], {})[ev["peer"]] = ev.get("spec")
        if ev.get("inplace") and ev["node"] in self.nodes:
            try:
                self.nodes[ev["node"]].refresh_in_place(self.view_of(ev["node"]))
                self.count("setview.inplace")
            except Exception as e:
                self.count("setview.inplace.error." + type(e).__name__)
                self.build_node(ev["node"])
        else:
            self.build_node(ev["node"])
        self.count("fault.stale-metadata-view")
        return {"node": ev["node"], "peer": ev["peer"]}


def fedsubject(nid):
    return "%s|%s|%s|%s" % (nid.text, nid.format, nid.name_qualifier, nid.sp_name_qualifier)


def run_scenario(scenario):
    sim = FedSim(scenario)
    sim.violations = []
    sim.run()
    return sim


def digest_history(sim):
    """Stable digest of everything observable in a run (for the determinism self-test)."""
    def clean(o):
        if isinstance(o, dict):
            return {k: clean(v) for k, v in sorted(o.items()) if k not in ("exc_msg", "error_msg")}
        if isinstance(o, (list, tuple)):
            return [clean(x) for x in o]
        if isinstance(o, bytes):
            return hashlib.sha1(o).hexdigest()
        return o
    blob = json.dumps([clean(h) for h in sim.history], sort_keys=True, default=str)
    return hashlib.sha256(blob.encode()).hexdigest()
