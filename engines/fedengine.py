"""Runner-facing interface of engine F (fedsim)."""
import hashlib
import json

from engines import fedsim, fedgen

generate = fedgen.generate

_Q = {"det_sample": 6, "min_budget": 40, "run_timeout": 150, "wall": 55}
_T = {"det_sample": 24, "min_budget": 90, "run_timeout": 300, "wall": 1200}
PLAN = {
    "C02": {"quick": dict(_Q, runs=400), "thorough": dict(_T, runs=12000)},
    "C03": {"quick": dict(_Q, runs=1500), "thorough": dict(_T, runs=60000)},
    "C04": {"quick": dict(_Q, runs=2000), "thorough": dict(_T, runs=80000)},
    "C05": {"quick": dict(_Q, runs=1500), "thorough": dict(_T, runs=60000)},
    "C08": {"quick": dict(_Q, runs=1500), "thorough": dict(_T, runs=60000)},
    "C10": {"quick": dict(_Q, runs=2500), "thorough": dict(_T, runs=100000)},
    "C17": {"quick": dict(_Q, runs=1200), "thorough": dict(_T, runs=50000)},
    "C20": {"quick": dict(_Q, runs=1200), "thorough": dict(_T, runs=50000)},
}

COMPONENTS = {
    "real": ["saml2_tophat.server.Server", "saml2_tophat.client.Saml2Client", "saml2_tophat.entity.Entity",
             "saml2_tophat.response.AuthnResponse", "saml2_tophat.request.*", "saml2_tophat.sigver.SecurityContext",
             "saml2_tophat.sigver.CryptoBackendXmlSec1 (argv construction, temp files, output parsing)",
             "saml2_tophat.mdstore.MetadataStore (inline source)", "saml2_tophat.metadata.entity_descriptor",
             "saml2_tophat.ident.IdentDB (in-memory)", "saml2_tophat.cache.Cache / population.Population (in-memory)",
             "saml2_tophat.pack (sender side)", "saml2_tophat.assertion", "saml2_tophat.attribute_converter",
             "saml2_tophat.time_util / validate"],
    "stub": ["xmlsec1 process -> simcore.simxmlsec.SimXmlsec (in-process; C14N-2.0 canonical form, real RSA / 3DES)",
             "browser + HTTP transport -> engines.fedsim (std-lib binding decoders in simcore.wire)",
             "SP / IdP applications -> harness code keeping `outstanding`, choosing sign/encrypt options",
             "other IdP products -> 'dialect' composition of the same public pysaml2 building blocks",
             "wall clock, random.SystemRandom -> simcore.seams (SimClock per node, seeded id stream)"],
}

RULE_TEXT = {
    "*": ("one evaluation = one simulated run (a federation of real pysaml2 nodes driven through a seeded "
          "event list with faults); a run is non-trivial when at least one delivery made an oracle rule of any "
          "property decide non-vacuously (a reject-required reason was present, or acceptance was required); "
          "distinct = distinct run signature = hash of the ordered (event kind, fault kinds that fired, "
          "accept/reject verdict, rule hits) of the run"),
}
ASSUMPTIONS = {
    "*": ["xmlsec1 is replaced by the in-process stub SimXmlsec: claims are about pysaml2's use of the tool's "
          "contract (argv, exit code, OK line, output file), not about real xmlsec1 / exclusive C14N",
          "oracle ground truth for 'signature verifies' and 'decryptable' is the stub's healthy answer",
          "faults are what deployments meet (delay, loss, replay, misrouting, byte corruption, clock error, "
          "stale metadata, mis-deployed keys, misbehaving helper process, restarts); an adversary who "
          "restructures XML is outside this technique",
          "a clean batch is evidence, not proof: the search samples schedules and fault placements"],
}


def execute(scenario):
    sim = fedsim.run_scenario(scenario)
    viol = [v for v in sim.violations]
    sig_items = []
    nontrivial = False
    for h in sim.history:
        item = [h["k"]]
        if h["k"] in ("resp", "req"):
            item.append(h.get("mut") and h["mut"].split(":")[0])
            item.append(bool(h.get("tf")))
            if h["k"] == "resp":
                item.append(h["out"]["accepted"])
            else:
                item.append(h["handed"])
            hits = (h.get("facts") or {}).get("hits") or []
            item.append(sorted(str(x) for x in hits))
            if hits:
                nontrivial = True
        sig_items.append(item)
    if any(k.startswith("oracle.accept-required") or k == "oracle.accepted.clean" for k in sim.counters):
        nontrivial = True
    signature = hashlib.sha1(json.dumps(sig_items, sort_keys=True, default=str).encode()).hexdigest()[:16]
    counters = dict(sim.counters)
    for k, v in sim.world.tool.counts.items():
        counters["tool." + k] = v
    sample = {"seed": scenario["seed"], "knobs": scenario.get("knobs"),
              "nodes": [n["name"] for n in scenario["nodes"]],
              "events": [abbreviate(e) for e in scenario["events"][:14]],
              "verdicts": [(h["k"], h["out"]["accepted"] if h["k"] == "resp" else h.get("handed", h.get("ok")),
                            (h.get("facts") or {}).get("hits")) for h in sim.history[:14]]}
    return {"violations": viol, "signature": signature, "digest": fedsim.digest_history(sim),
            "counters": counters, "sim_seconds": sim.world.clock.t - sim.world.clock.start,
            "nontrivial": nontrivial, "sample": sample, "steps": len(sim.history)}


def abbreviate(e):
    out = {k: v for k, v in e.items() if k in ("t", "k", "f", "sp", "idp", "to", "via", "node", "delta", "dup", "mut", "tf")}
    p = e.get("p")
    if p:
        out["p"] = {k: v for k, v in p.items() if k in ("sign_response", "sign_assertion", "encrypt", "lifetime",
                                                         "dialect", "handover", "session_nooa")}
    return out


def simplify(sc):
    """Knob simplifications tried after event minimisation (each yielded candidate is tested)."""
    # 0. UTC process
    if sc.get("tz"):
        c = json.loads(json.dumps(sc))
        c["tz"] = None
        yield c
    # 1. no clock skew
    if sc.get("skew") and any(sc["skew"].values()):
        c = json.loads(json.dumps(sc))
        c["skew"] = {k: 0.0 for k in c["skew"]}
        yield c
    # 2. drop nodes no remaining event mentions
    used = set()
    for e in sc["events"]:
        for k in ("sp", "idp", "to", "node", "peer"):
            if e.get(k):
                used.add(e[k])
    keep = [n for n in sc["nodes"] if n["name"] in used or n["kind"] == "idp" and not any(
        m["kind"] == "idp" and m["name"] in used for m in sc["nodes"])]
    if len(keep) < len(sc["nodes"]) and any(n["kind"] == "idp" for n in keep) and any(n["kind"] == "sp" for n in keep):
        c = json.loads(json.dumps(sc))
        c["nodes"] = keep
        yield c
    # 3. empty identities
    c = json.loads(json.dumps(sc))
    changed = False
    for e in c["events"]:
        if e.get("p") and e["p"].get("identity"):
            e["p"]["identity"] = {"mail": ["mk0000000000000001"]}
            changed = True
    if changed:
        yield c
