"""Engine T (C15): differently keyed entities sign and verify redirect-binding messages,
sequentially interleaved in one thread or concurrently in real threads whose interleaving the
simulator alone decides.

Threaded mode: every worker is a real `threading.Thread` with `sys.settrace` installed; on every
`line` event in a frame whose file is sigver.py / pack.py / entity.py / httpbase.py /
cryptography/asymmetric.py of the repository the worker hands the baton back and parks on its
own semaphore.  The scheduler draws the next runnable worker from the run's `schedule` stream
and releases it, so exactly one worker runs at any time and the interleaving is a pure function
of the seed (and replays).

Oracle, with `cryptography` directly over the octet string rebuilt per the binding
specification from the URL as emitted (never with the shared signer objects):
 (i)   a URL produced for entity e verifies under e's certificate,
 (ii)  and under no other entity's certificate;
and, through the library's own verifier with e's certificate,
 (iii) it stops verifying when SAMLRequest/SAMLResponse, RelayState or SigAlg is changed or
       removed, or the message is presented under the other parameter name,
 (iv)  it never verifies with a missing or unsupported SigAlg.
"""
import base64
import hashlib
import json
import os
import sys
import threading
import urllib.parse

from simcore import seams
from simcore.prng import rng as mkrng, derive
from simcore.world import World, cert_file, cert_b64
from engines import fed, fedgen

from cryptography.hazmat.primitives import hashes
from cryptography.hazmat.primitives.asymmetric import padding
from simcore.simxmlsec import load_cert_public_key

from saml2_tophat import BINDING_HTTP_REDIRECT
from saml2_tophat import sigver
from saml2_tophat.pack import http_redirect_message
from saml2_tophat.s_utils import deflate_and_base64_encode

SRC = os.path.join(os.path.abspath(seams.REPO_SRC), "saml2_tophat")
TRACED = {os.path.join(SRC, "sigver.py"), os.path.join(SRC, "pack.py"), os.path.join(SRC, "entity.py"),
          os.path.join(SRC, "httpbase.py"), os.path.join(SRC, "cryptography", "asymmetric.py")}
HASH = {fedgen.SIGALGS[0]: hashes.SHA1, fedgen.SIGALGS[1]: hashes.SHA224, fedgen.SIGALGS[2]: hashes.SHA256,
        fedgen.SIGALGS[3]: hashes.SHA384, fedgen.SIGALGS[4]: hashes.SHA512}
_PUB = {}


def pub(i):
    if i not in _PUB:
        with open(cert_file(i), "rb") as f:
            _PUB[i] = load_cert_public_key(f.read())
    return _PUB[i]


class HarnessDeadlock(Exception):
    pass


class Scheduler(object):
    def __init__(self, rng, max_steps=20000, stay=0.5):
        self.rng = rng
        self.max_steps = max_steps
        self.stay = stay
        self.sems = {}
        self.main = threading.Semaphore(0)
        self.done = {}
        self.errors = {}
        self.trace = hashlib.sha1()
        self.shared_trace = hashlib.sha1()
        self.steps = 0
        self.switches = 0
        self.probe_rebound = 0
        self.holding = {}      # wid -> True between "obtained signer" and "signed" (for the probe)

    def _tracer(self, wid):
        def local(frame, event, arg):
            if event == "line":
                fn = frame.f_code.co_filename
                self.trace.update(("%d:%s:%d;" % (wid, os.path.basename(fn), frame.f_lineno)).encode())
                if frame.f_code.co_name in ("get_signer", "sign", "verify", "http_redirect_message",
                                            "verify_redirect_signature"):
                    self.shared_trace.update(("%d:%s:%d;" % (wid, frame.f_code.co_name, frame.f_lineno)).encode())
                self.steps += 1
                # hand the baton back, park
                self.main.release()
                self.sems[wid].acquire()
            return local

        def glob(frame, event, arg):
            if frame.f_code.co_filename in TRACED:
                return local
            return None
        return glob

    def spawn(self, wid, fn):
        self.sems[wid] = threading.Semaphore(0)
        self.done[wid] = False

        def body():
            self.sems[wid].acquire()
            sys.settrace(self._tracer(wid))
            try:
                fn()
            except BaseException as e:     # noqa
                self.errors[wid] = "%s: %s" % (type(e).__name__, e)
            finally:
                sys.settrace(None)
                self.done[wid] = True
                self.main.release()
        t = threading.Thread(target=body, name="verif-worker-%d" % wid, daemon=True)
        t.start()
        return t

    def run(self):
        last = None
        while True:
            runnable = sorted(w for w, d in self.done.items() if not d)
            if not runnable:
                return
            if last in runnable and self.rng.random() < self.stay:
                w = last
            else:
                w = runnable[self.rng.randrange(len(runnable))]
                if last is not None and w != last:
                    self.switches += 1
            last = w
            self.sems[w].release()
            if not self.main.acquire(timeout=20):
                raise HarnessDeadlock("worker %d did not yield within 20 s" % w)
            if self.steps > self.max_steps:
                raise HarnessDeadlock("step cap exceeded")


# ------------------------------------------------------------------------------------ the run

class ThreadSim(object):
    def __init__(self, sc):
        self.sc = sc
        self.world = World(sc["seed"], sc.get("tz"))
        self.violations = []
        self.urls = []          # produced redirect URLs with provenance
        self.held = {}
        self.counters = {}
        self.log = []

    def count(self, k, n=1):
        self.counters[k] = self.counters.get(k, 0) + n

    def viol(self, i, rule, detail):
        self.violations.append({"prop": "C15", "rule": rule, "detail": detail, "i": i})

    def build(self):
        specs = self.sc["entities"]
        idps = [s for s in specs if s["kind"] == "idp"]
        sps = [s for s in specs if s["kind"] == "sp"]
        self.ent = {}
        for s in specs:
            peers = sps if s["kind"] == "idp" else idps
            node = (fed.IdPNode if s["kind"] == "idp" else fed.SPNode)(self.world, s, peers)
            self.ent[s["name"]] = (node.server if s["kind"] == "idp" else node.client, s)

    # ---- steps (executed by whichever thread owns the entity's script)
    def step(self, ev, i):
        k = ev["k"]
        obj, spec = self.ent[ev["e"]]
        if k == "obtain":
            self.held[(ev["e"], ev["alg"])] = obj.sec.sec_backend.get_signer(ev["alg"])
            self.count("step.obtain")
        elif k == "sign":
            signer = self.held.get((ev["e"], ev["alg"]))
            if signer is None:
                return
            typ = "SAMLResponse" if ev.get("response") else "SAMLRequest"
            try:
                info = http_redirect_message(ev["msg"], ev["dest"], ev.get("relay", ""), typ, sigalg=ev["alg"], signer=signer)
            except Exception as e:
                # an entity that obtained its signer for a supported algorithm can sign with it - the first message
                # and every later one
                self.viol(i, "held-signer-cannot-sign", "entity=%s alg=%s: %s: %s" % (ev["e"], ev["alg"], type(e).__name__, str(e)[:120]))
                raise
            self.urls.append({"i": i, "e": ev["e"], "key": spec["key"], "alg": ev["alg"], "via": "held-signer",
                              "url": dict(info["headers"])["Location"], "typ": typ, "msg": ev["msg"], "relay": ev.get("relay", "")})
            self.count("step.sign")
        elif k == "redirect":
            info = obj.apply_binding(BINDING_HTTP_REDIRECT, ev["msg"], ev["dest"], ev.get("relay", ""),
                                     response=bool(ev.get("response")), sign=True, sigalg=ev["alg"])
            typ = "SAMLResponse" if ev.get("response") else "SAMLRequest"
            self.urls.append({"i": i, "e": ev["e"], "key": spec["key"], "alg": ev["alg"], "via": "apply_binding",
                              "url": dict(info["headers"])["Location"], "typ": typ, "msg": ev["msg"], "relay": ev.get("relay", "")})
            self.count("step.redirect")
        elif k == "verify":
            # verification of somebody's URL by this entity (rebinds the shared signer's key too)
            if not self.urls:
                return
            u = self.urls[ev.get("u", 0) % len(self.urls)]
            args = dict(urllib.parse.parse_qsl(urllib.parse.urlsplit(u["url"]).query, keep_blank_values=True))
            if ev.get("candidates"):
                # a receiver whose metadata lists several signing certificates for the sender (key roll-over): the
                # one parsed query is checked against each candidate in turn; the verdict under the signer's own
                # certificate is True and under every other one False, wherever it stands in the list
                keys_ = [u["key"] if c == "own" else c for c in ev["candidates"]]
                for kk in keys_:
                    try:
                        ok = sigver.verify_redirect_signature(args, obj.sec.sec_backend, cert_b64(kk))
                    except Exception as e:
                        ok = "EXC:" + type(e).__name__
                    self.log.append(("verify-candidate", ev["e"], u["e"], kk == u["key"], str(ok)))
                    if kk == u["key"] and ok is not True:
                        self.viol(i, "own-url-does-not-verify", "entity=%s alg=%s candidates=%s verdict under own certificate: %s" % (
                            u["e"], u["alg"], ev["candidates"], ok))
                    elif kk != u["key"] and ok is True:
                        self.viol(i, "verifies-under-foreign-key", "entity=%s verifies under k%d (candidates %s)" % (u["e"], kk, ev["candidates"]))
                self.count("step.verify-candidates")
                return
            try:
                ok = sigver.verify_redirect_signature(args, obj.sec.sec_backend, cert_b64(u["key"]))
            except Exception as e:
                ok = "EXC:" + type(e).__name__
            self.log.append(("verify", ev["e"], u["e"], str(ok)))
            self.count("step.verify")

    def run(self):
        sc = self.sc
        with self.world:
            self.build()
            if sc["mode"] == "seq":
                for i, ev in enumerate(sc["events"]):
                    try:
                        self.step(ev, i)
                    except Exception as e:
                        self.log.append(("error", i, type(e).__name__))
                        self.count("step.error." + type(e).__name__)
                self.sched = None
            else:
                sched = Scheduler(mkrng(sc.get("sched_seed", sc["seed"]), "schedule"), stay=sc.get("stay", 0.5))
                self.sched = sched
                by_entity = {}
                for i, ev in enumerate(sc["events"]):
                    by_entity.setdefault(ev["e"], []).append((i, ev))
                threads = []
                for wid, (ename, steps) in enumerate(sorted(by_entity.items())):
                    def body(steps=steps):
                        for i, ev in steps:
                            try:
                                self.step(ev, i)
                            except Exception as e:
                                self.log.append(("error", i, type(e).__name__))
                    threads.append(sched.spawn(wid, body))
                sched.run()
                for t in threads:
                    t.join(timeout=5)
                self.count("sched.steps", sched.steps)
                self.count("sched.switches", sched.switches)
            self.judge()
        return self

    # ---- oracle
    def judge(self):
        keys = sorted(set(s["key"] for s in self.sc["entities"]) |
                      set(k_ for s in self.sc["entities"] for k_ in (s.get("enc_keys") or [])))
        r = mkrng(self.sc["seed"], "mutations")
        for u in sorted(self.urls, key=lambda x: x["i"]):
            parts = urllib.parse.urlsplit(u["url"])
            raw_pairs = [p.split("=", 1) for p in parts.query.split("&") if p]
            raw = {k: (v[0] if v else "") for k, *v in raw_pairs}
            args = dict(urllib.parse.parse_qsl(parts.query, keep_blank_values=True))
            if "Signature" not in args or "SigAlg" not in args:
                self.viol(u["i"], "unsigned-url-returned", "asked to sign, got %s" % sorted(args))
                continue
            order = [u["typ"], "RelayState", "SigAlg"]
            octets = "&".join("%s=%s" % (k, raw[k]) for k in order if k in raw).encode("ascii")
            try:
                sig = base64.b64decode(args["Signature"])
            except Exception:
                self.viol(u["i"], "signature-not-base64", args["Signature"][:40])
                continue
            ok_under = []
            for k in keys:
                try:
                    pub(k).verify(sig, octets, padding.PKCS1v15(), HASH[u["alg"]]())
                    ok_under.append(k)
                except Exception:
                    pass
            self.count("oracle.urls")
            if u["key"] not in ok_under:
                self.viol(u["i"], "not-signed-with-own-key", "entity=%s (k%d) via=%s verifies under=%s" % (
                    u["e"], u["key"], u["via"], ["k%d" % k for k in ok_under]))
                continue
            if ok_under != [u["key"]]:
                self.viol(u["i"], "verifies-under-foreign-key", "entity=%s verifies under=%s" % (u["e"], ok_under))
                continue
            # the message really is what was asked for
            if args.get("RelayState", "") != u["relay"]:
                self.viol(u["i"], "relaystate-changed", "%r != %r" % (args.get("RelayState"), u["relay"]))
                continue
            # library verifier: positive, then single-parameter mutations
            obj, spec = self.ent[u["e"]]
            cert = cert_b64(u["key"])

            def lib(a):
                try:
                    return bool(sigver.verify_redirect_signature(a, obj.sec.sec_backend, cert))
                except Exception:
                    return False
            if not lib(dict(args)):
                self.viol(u["i"], "own-url-does-not-verify", "entity=%s alg=%s" % (u["e"], u["alg"]))
                continue
            # ... whichever entity of the process does the verifying (the receiver uses ITS back end, with the
            # sender's certificate; keys of different sizes live side by side)
            bad_via = None
            for oname, (oobj, ospec) in sorted(self.ent.items()):
                if oname == u["e"]:
                    continue
                self.count("oracle.verified-through-other-backend")
                try:
                    okv = bool(sigver.verify_redirect_signature(dict(args), oobj.sec.sec_backend, cert))
                except Exception:
                    okv = False
                if not okv:
                    bad_via = oname
                    break
            if bad_via:
                self.viol(u["i"], "own-url-does-not-verify", "entity=%s alg=%s checked through the back end of %s" % (
                    u["e"], u["alg"], bad_via))
                continue
            other_typ = "SAMLResponse" if u["typ"] == "SAMLRequest" else "SAMLRequest"
            muts = []
            a = dict(args); a[u["typ"]] = deflate_and_base64_encode(u["msg"] + "x").decode(); muts.append(("message-changed", a))
            a = dict(args); a["RelayState"] = (a.get("RelayState", "") + "x"); muts.append(("relaystate-changed-or-added", a))
            if "RelayState" in args:
                a = dict(args); del a["RelayState"]; muts.append(("relaystate-removed", a))
            a = dict(args); a["SigAlg"] = r.pick([x for x in fedgen.SIGALGS if x != u["alg"]]); muts.append(("sigalg-changed", a))
            a = dict(args); del a["SigAlg"]; muts.append(("sigalg-missing", a))
            a = dict(args); a["SigAlg"] = r.pick(["http://www.w3.org/2000/09/xmldsig#hmac-sha1", "none", "",
                                                  "http://www.w3.org/2001/04/xmldsig-more#rsa-md5"]); muts.append(("sigalg-unsupported", a))
            a = dict(args); a[other_typ] = a.pop(u["typ"]); muts.append(("other-parameter-name", a))
            a = dict(args); del a[u["typ"]]; muts.append(("message-removed", a))
            sigb = bytearray(sig); sigb[r.randrange(len(sigb))] ^= 1 << r.randrange(8)
            a = dict(args); a["Signature"] = base64.b64encode(bytes(sigb)).decode(); muts.append(("signature-bit-flipped", a))
            for name, a in muts:
                self.count("oracle.mutations")
                if lib(a):
                    self.viol(u["i"], "mutated-url-verifies." + name, "entity=%s alg=%s" % (u["e"], u["alg"]))
                    break
            # the same query signed by another implementation with the entity's own key under an algorithm this
            # library does not support: "an unsupported algorithm never verifies", however good the signature is
            from oracles.fedrules import fixture_priv
            for uri, hcls in (("http://www.w3.org/2001/04/xmldsig-more#rsa-md5", hashes.MD5),
                              ("http://www.w3.org/2001/04/xmldsig-more#rsa-sha3-256", hashes.SHA3_256),
                              ("urn:example:sigalg:rsa-sha256-variant", hashes.SHA256)):
                a = dict(args)
                a["SigAlg"] = uri
                oct2 = "&".join("%s=%s" % (k, urllib.parse.quote_plus(a[k])) for k in order if k in a).encode("ascii")
                try:
                    a["Signature"] = base64.b64encode(fixture_priv(u["key"]).sign(oct2, padding.PKCS1v15(), hcls())).decode()
                except Exception:
                    self.count("probe.foreign-alg.not-signable-here")
                    continue
                self.count("oracle.foreign-alg-signed")
                if lib(a):
                    self.viol(u["i"], "unsupported-algorithm-verifies", "entity=%s SigAlg=%s" % (u["e"], uri))
                    break
            # ... and a query that names no algorithm at all (parameter absent or blank), with a good signature by
            # the entity's key over exactly the parameters that are there: "a missing algorithm never verifies"
            for blank in (False, True):
                for hcls in (hashes.SHA1, hashes.SHA256):
                    a = dict(args)
                    del a["SigAlg"]
                    order2 = [u["typ"], "RelayState"]
                    if blank:
                        a["SigAlg"] = ""
                        order2 = order
                    oct2 = "&".join("%s=%s" % (k, urllib.parse.quote_plus(a[k])) for k in order2 if k in a).encode("ascii")
                    a["Signature"] = base64.b64encode(fixture_priv(u["key"]).sign(oct2, padding.PKCS1v15(), hcls())).decode()
                    self.count("oracle.no-alg-signed")
                    if lib(a):
                        self.viol(u["i"], "missing-algorithm-verifies", "entity=%s SigAlg %s, signed with %s" % (
                            u["e"], "blank" if blank else "absent", hcls.name))
                        break
            # a damaged or placeholder certificate is not the signer's certificate either
            own = cert_b64(u["key"])
            others = [cert_b64(k) for k in keys if k != u["key"]]
            damaged = [own[:40], own[:len(own) // 2], own[:100] + "!" + own[101:], "not a certificate", "AAAA"]
            if others:
                damaged.append(others[0][: len(others[0]) - 7])
            for dc in damaged:
                self.count("oracle.damaged-cert")
                try:
                    bad_ok = bool(sigver.verify_redirect_signature(dict(args), obj.sec.sec_backend, dc))
                except Exception:
                    bad_ok = False
                if bad_ok:
                    self.viol(u["i"], "verifies-under-damaged-certificate", "entity=%s cert=%r..." % (u["e"], dc[:24]))
                    break
            # a certificate that holds no RSA key at all (EC, Ed25519, DSA - legal in metadata) cannot have made an
            # RSA signature either
            for nm in ("ec", "ed25519", "dsa"):
                with open(os.path.join(seams.FIXTURES, "nonrsa-%s.crt" % nm)) as f_:
                    body = "".join(l.strip() for l in f_ if l.strip() and not l.startswith("-----"))
                self.count("oracle.non-rsa-cert")
                try:
                    odd_ok = bool(sigver.verify_redirect_signature(dict(args), obj.sec.sec_backend, body))
                except Exception:
                    odd_ok = False
                if odd_ok:
                    self.viol(u["i"], "verifies-under-non-rsa-certificate", "entity=%s cert=%s" % (u["e"], nm))
                    break
            # and under every other entity's certificate the library must say no
            for k in keys:
                if k == u["key"]:
                    continue
                try:
                    other_ok = bool(sigver.verify_redirect_signature(dict(args), obj.sec.sec_backend, cert_b64(k)))
                except Exception:
                    other_ok = False
                if other_ok:
                    self.viol(u["i"], "library-verifies-under-foreign-cert", "entity=%s foreign=k%d" % (u["e"], k))
                    break


# ------------------------------------------------------------------------------------ generator

def generate(seed, prop, tier):
    r = mkrng(seed, "workload")
    n_ent = r.pick([2, 2, 3, 4])
    ents = []
    for i in range(n_ent):
        if i % 2 == 0:
            ents.append({"kind": "sp", "name": "sp%d" % i, "key": 3 + i, "enc_keys": [], "tenant": "a"})
        else:
            ents.append({"kind": "idp", "name": "idp%d" % i, "key": i})
    for e_ in ents:
        if r.chance(0.35):
            # separate encryption key pair(s) next to the signing key (documented `encryption_keypairs`)
            e_["enc_keys"] = r.pick([[8], [9, 10], [11]])
    if r.chance(0.4):
        # one entity of the process uses a longer RSA key than the fixtures' usual 1024 bits
        # (k14: a certificate whose base64 body needs no padding and ends in letters that also occur in the PEM armour)
        r.pick(ents)["key"] = r.pick([12, 13, 14, 14])
    mode = "seq" if seed % 2 == 0 else "threads"
    n_steps = r.randrange(3, 13 if tier == "quick" else 17)
    evs = []
    algs = fedgen.SIGALGS
    shared_alg = r.pick(algs)
    for _ in range(n_steps):
        e = r.pick(ents)
        alg = shared_alg if r.chance(0.7) else r.pick(algs)
        k = r.weighted([("obtain", 3), ("sign", 3), ("redirect", 4), ("verify", 2)])
        msg = "<Req ID='%s'>%s</Req>" % (fedgen.HOSTILE and "id%08x" % r.getrandbits(32), r.pick(["", "å", "&amp;", "x" * 50]))
        relay = r.pick(["", "rs", "a&Signature=zz", "åäö", "x=1&SigAlg=none", " ", "%26", "+"])
        ev = {"k": k, "e": e["name"], "alg": alg}
        if k in ("sign", "redirect"):
            ev.update({"msg": msg, "relay": relay, "dest": r.pick(["https://peer.example/sso", "https://peer.example/sso?x=1"]),
                       "response": e["kind"] == "idp" and r.chance(0.7)})
        if k == "verify":
            ev["u"] = r.randrange(100)
            if r.chance(0.5):
                other = r.pick([x["key"] for x in ents])
                ev["candidates"] = r.pick([[other, "own"], ["own", other], [other, "own", other]])
        evs.append(ev)
    # make sure held signers exist before 'sign': prepend obtains in threads mode so windows exist
    return {"engine": "threadsim", "prop": "C15", "seed": seed, "tier": tier, "mode": mode,
            "sched_seed": derive(seed, "sched"), "stay": r.pick([0.2, 0.5, 0.8, 0.95]),
            "knobs": {"mode": mode, "entities": n_ent}, "entities": ents, "events": evs}


def execute(sc):
    sim = ThreadSim(sc).run()
    sig_items = [(u["e"], u["alg"], u["via"]) for u in sim.urls] + [l for l in sim.log]
    sched = sim.sched
    trace = sched.trace.hexdigest() if sched else "seq"
    shared = sched.shared_trace.hexdigest()[:16] if sched else hashlib.sha1(
        json.dumps([(e["k"], e["e"], e["alg"]) for e in sc["events"]]).encode()).hexdigest()[:16]
    digest = hashlib.sha256(json.dumps([sig_items, [u["url"] for u in sim.urls], trace, sim.violations],
                                       sort_keys=True, default=str).encode()).hexdigest()
    counters = dict(sim.counters)
    counters["mode." + sc["mode"]] = 1
    return {"violations": sim.violations, "signature": shared, "digest": digest, "counters": counters,
            "sim_seconds": 0.0, "nontrivial": len(sim.urls) >= 1 and len(set(e["e"] for e in sc["events"])) >= 2,
            "steps": (sched.steps if sched else len(sc["events"])),
            "sample": {"seed": sc["seed"], "mode": sc["mode"], "entities": [(e["name"], "k%d" % e["key"]) for e in sc["entities"]],
                       "events": [{k: v for k, v in e.items() if k in ("k", "e", "alg", "relay")} for e in sc["events"][:12]],
                       "urls": len(sim.urls), "scheduler_steps": sched.steps if sched else 0,
                       "switches": sched.switches if sched else 0}}


def simplify(sc):
    if sc["mode"] == "threads":
        c = json.loads(json.dumps(sc))
        c["mode"] = "seq"
        yield c


_Q = {"det_sample": 8, "min_budget": 40, "run_timeout": 120, "wall": 50}
_T = {"det_sample": 32, "min_budget": 90, "run_timeout": 300, "wall": 900}
PLAN = {"C15": {"quick": dict(_Q, runs=3000), "thorough": dict(_T, runs=120000)}}
COMPONENTS = {"real": ["saml2_tophat.sigver.RSACrypto / SIGNER_ALGS / verify_redirect_signature", "saml2_tophat.pack.http_redirect_message",
                       "saml2_tophat.entity.Entity.apply_binding", "saml2_tophat.cryptography.asymmetric",
                       "real threading.Thread workers (one runs at a time)"],
              "stub": ["thread scheduling -> seeded baton-passing scheduler at sys.settrace line events",
                       "peers' metadata -> generated; xmlsec1 -> SimXmlsec (only used while building the entities)"]}
RULE_TEXT = {"*": "one evaluation = one run of 2-4 differently keyed entities executing 3-16 obtain/sign/redirect/verify steps, "
                  "sequentially interleaved (even seeds) or in real threads under the seeded scheduler (odd seeds); non-trivial = "
                  "at least one signed URL was produced and at least two entities took steps; distinct = distinct interleaving, "
                  "measured as the hash of the ordered (worker, function, line) events inside get_signer / sign / verify / "
                  "http_redirect_message / verify_redirect_signature (threads) or of the step sequence (sequential)"}
ASSUMPTIONS = {"*": ["pre-emption points are line events inside sigver.py, pack.py, entity.py, httpbase.py and "
                     "cryptography/asymmetric.py; C-level atomicity below a line is not split",
                     "the oracle verifies signatures with the `cryptography` package directly over the octet string "
                     "rebuilt from the emitted URL"]}
