"""Engine M (C16): a real MetadataStore fed from simulated sources (inline, file, remote over the
simulated network, loader callable) by generated federation documents, under a simulated clock,
with source faults and tool faults, compared lookup by lookup with a ground-truth model built
from the generator's own data.

Documents are written with the standard library (ElementTree) from the ground-truth table - not
with the library's own md classes - so the model and the store share no code.
"""
import copy
import hashlib
import json
import os
import shutil
import tempfile
import xml.etree.ElementTree as ET

from simcore import seams, simxmlsec
from simcore.prng import rng as mkrng
from simcore.world import World, cert_b64, cert_file, key_file
from simcore.toolfaults import modes_for
from engines import fed
from oracles.fedrules import fixture_priv

from saml2_tophat.mdstore import MetadataStore, ToOld, SourceNotFound
from saml2_tophat.config import Config
from saml2_tophat.attribute_converter import ac_factory
from saml2_tophat.s_utils import UnknownSystemEntity, UnsupportedBinding

MD = "urn:oasis:names:tc:SAML:2.0:metadata"
SAML = "urn:oasis:names:tc:SAML:2.0:assertion"
DS = "http://www.w3.org/2000/09/xmldsig#"
MDATTR = "urn:oasis:names:tc:SAML:metadata:attribute"
SAMLP = "urn:oasis:names:tc:SAML:2.0:protocol"
XMLNS = "http://www.w3.org/XML/1998/namespace"
ENTITY_CATEGORY = "http://macedir.org/entity-category"
ENTITY_CATEGORY_SUPPORT = "http://macedir.org/entity-category-support"
B = {"redirect": fed.BINDING_HTTP_REDIRECT, "post": fed.BINDING_HTTP_POST, "soap": fed.BINDING_SOAP}

ROLE_TAG = {"idpsso": "IDPSSODescriptor", "spsso": "SPSSODescriptor", "attribute_authority": "AttributeAuthorityDescriptor"}
SERVICE_TAG = {"single_sign_on_service": "SingleSignOnService", "single_logout_service": "SingleLogoutService",
               "assertion_consumer_service": "AssertionConsumerService", "attribute_service": "AttributeService",
               "manage_name_id_service": "ManageNameIDService"}
# schema order inside each role descriptor
ROLE_SERVICES = {"idpsso": ["single_logout_service", "manage_name_id_service", "single_sign_on_service"],
                 "spsso": ["single_logout_service", "manage_name_id_service", "assertion_consumer_service"],
                 "attribute_authority": ["attribute_service"]}


def q(ns, t):
    return "{%s}%s" % (ns, t)


def ts(epoch, style=None):
    from simcore import wire
    if style and style.startswith("frac:"):
        # fractional seconds as other tools write them (.NET round-trip format: seven digits; nanoseconds: nine)
        return wire.fmt_ts(epoch, "nozone") + style[5:] + "Z"
    return wire.fmt_ts(epoch)


def entity_attrs_of(e):
    """The entity attributes a document declares for e: attribute name -> values (declaration order)."""
    d = {}
    if e.get("categories"):
        d[ENTITY_CATEGORY] = list(e["categories"])
    if e.get("categories_support"):
        d[ENTITY_CATEGORY_SUPPORT] = list(e["categories_support"])
    for name, vals in (e.get("other_attrs") or {}).items():
        d[name] = list(vals)
    return d


def build_entity(e, now):
    ed = ET.Element(q(MD, "EntityDescriptor"), {"entityID": e["id"]})
    if e.get("valid_until") is not None:
        ed.set("validUntil", ts(now + e["valid_until"], e.get("vu_style")))
    if entity_attrs_of(e):
        ext = ET.SubElement(ed, q(MD, "Extensions"))
        ea = ET.SubElement(ext, q(MDATTR, "EntityAttributes"))
        for name, vals in entity_attrs_of(e).items():
            at = ET.SubElement(ea, q(SAML, "Attribute"), {"Name": name,
                                                          "NameFormat": "urn:oasis:names:tc:SAML:2.0:attrname-format:uri"})
            for c in vals:
                ET.SubElement(at, q(SAML, "AttributeValue")).text = c
    for role, rd in [(role_, e["roles"].get(role_)) for role_ in ("idpsso", "spsso", "attribute_authority")] + \
            [(role_, rd_) for role_, rd_ in sorted((e.get("roles_b") or {}).items())]:
        # (roles_b: one more descriptor of a kind the entity already has - the schema allows any number)
        if rd is None:
            continue
        r = ET.SubElement(ed, q(MD, ROLE_TAG[role]), {"protocolSupportEnumeration": rd.get("protocols", SAMLP)})
        for use, k in rd.get("keys", []):
            kd = ET.SubElement(r, q(MD, "KeyDescriptor"))
            if use:
                kd.set("use", use)
            ki = ET.SubElement(kd, q(DS, "KeyInfo"))
            x = ET.SubElement(ki, q(DS, "X509Data"))
            ET.SubElement(x, q(DS, "X509Certificate")).text = cert_b64(k)
        for svc in ROLE_SERVICES[role]:
            for ep in rd.get(svc, []):
                a = {"Binding": B[ep[0]], "Location": ep[1]}
                if svc == "assertion_consumer_service":
                    a["index"] = str(ep[2])
                ET.SubElement(r, q(MD, SERVICE_TAG[svc]), a)
        if role == "spsso":
            for acs in rd.get("acs_attr", []):
                c = ET.SubElement(r, q(MD, "AttributeConsumingService"), {"index": str(acs["index"])})
                sn = ET.SubElement(c, q(MD, "ServiceName"), {q(XMLNS, "lang"): "en"})
                sn.text = "svc"
                for name, required in acs["requested"]:
                    a = {"Name": name, "NameFormat": "urn:oasis:names:tc:SAML:2.0:attrname-format:uri"}
                    if required is not None:
                        a["isRequired"] = "true" if required else "false"
                    ET.SubElement(c, q(MD, "RequestedAttribute"), a)
    return ed


def build_document(doc, now, sign_key=None):
    if doc["wrapper"] == "entity":
        root = build_entity(doc["entities"][0], now)
    else:
        root = ET.Element(q(MD, "EntitiesDescriptor"), {"Name": doc.get("name", "fed")})
        if doc.get("valid_until") is not None:
            root.set("validUntil", ts(now + doc["valid_until"], doc.get("vu_style")))
        for e in doc["entities"]:
            root.append(build_entity(e, now))
    if sign_key is not None:
        ident = "md-%s" % doc.get("name", "x")
        root.set("ID", ident)
        sig = ET.Element(q(DS, "Signature"))
        si = ET.SubElement(sig, q(DS, "SignedInfo"))
        ET.SubElement(si, q(DS, "CanonicalizationMethod"), {"Algorithm": "http://www.w3.org/2001/10/xml-exc-c14n#"})
        ET.SubElement(si, q(DS, "SignatureMethod"), {"Algorithm": "http://www.w3.org/2001/04/xmldsig-more#rsa-sha256"})
        ref = ET.SubElement(si, q(DS, "Reference"), {"URI": "#" + ident})
        tr = ET.SubElement(ref, q(DS, "Transforms"))
        ET.SubElement(tr, q(DS, "Transform"), {"Algorithm": "http://www.w3.org/2000/09/xmldsig#enveloped-signature"})
        ET.SubElement(tr, q(DS, "Transform"), {"Algorithm": "http://www.w3.org/2001/10/xml-exc-c14n#"})
        ET.SubElement(ref, q(DS, "DigestMethod"), {"Algorithm": "http://www.w3.org/2001/04/xmlenc#sha256"})
        ET.SubElement(ref, q(DS, "DigestValue"))
        ET.SubElement(sig, q(DS, "SignatureValue"))
        root.insert(0, sig)
        xml = ET.tostring(root, encoding="utf-8")
        node = "%s:%s" % (MD, "EntitiesDescriptor" if doc["wrapper"] != "entity" else "EntityDescriptor")
        return simxmlsec.sign_document(xml, fixture_priv(sign_key), node, "ID", ident)
    return ET.tostring(root, encoding="utf-8")


class MdSim(object):
    def __init__(self, sc):
        self.sc = sc
        self.world = World(sc["seed"], sc.get("tz"))
        self.violations = []
        self.history = []
        self.counters = {}
        self.tmp = tempfile.mkdtemp(prefix="verif-md-")
        self.remote = {}        # url -> (status, body) or exception marker
        self.loader_content = {}
        self.model = {}         # store key -> {entity id -> entity spec}  (insertion ordered)
        self.inline_n = 0

    def count(self, k, n=1):
        self.counters[k] = self.counters.get(k, 0) + n

    def viol(self, i, rule, detail):
        self.violations.append({"prop": "C16", "rule": rule, "detail": detail, "i": i})

    def now(self):
        return int(self.world.clock.now(None))

    def net(self, method, url, **kw):
        self.count("net.requests")
        r = self.remote.get(url)
        if r is None:
            return seams.SimHttpResponse(404, b"not found")
        if r[0] == "conn":
            import requests
            raise requests.ConnectionError("simulated connection failure")
        return seams.SimHttpResponse(r[0], r[1])

    def run(self):
        try:
            with self.world as w:
                w.net = self.net
                conf = Config()
                conf.load({"entityid": "https://md.sim.example/me", "xmlsec_binary": seams.FAKE_BIN,
                           "key_file": key_file(0), "cert_file": cert_file(0)}, metadata_construction=True)
                self.base_conf = conf
                self.store = MetadataStore(ac_factory(), conf)
                for i, ev in enumerate(self.sc["events"]):
                    if "dt" in ev:
                        w.clock.advance(ev["dt"])
                    w.tool.fault_hook = None
                    w.tool.tag = "e%d" % i
                    rec = {"i": i, "k": ev["k"]}
                    getattr(self, "op_" + ev["k"])(ev, i, rec)
                    self.history.append(rec)
                    if self.violations:
                        break
        finally:
            shutil.rmtree(self.tmp, ignore_errors=True)
        return self

    # ---------------------------------------------------------------- load
    def op_load(self, ev, i, rec):
        self.consist = {}
        now = self.now()
        doc = ev["doc"]
        sign_key = ev.get("sign")
        xml = build_document(doc, now, sign_key)
        fault = ev.get("fault")
        body = xml
        if fault == "truncated":
            body = xml[: max(1, int(len(xml) * ev.get("frac", 0.5)))]
        elif fault == "garbled":
            b = bytearray(xml)
            r = mkrng(ev.get("sub", 0), "garble")
            for _ in range(3):
                b[r.randrange(len(b))] = r.randrange(256)
            body = bytes(b)
        elif fault == "empty":
            body = b""
        typ = ev["type"]
        sid = ev["src"]
        rec.update({"type": typ, "src": sid, "fault": fault, "signed": sign_key is not None})
        tf = ev.get("tf")
        if tf:
            def hook(inv, tf=tf):
                if inv["op"] == "verify":
                    self.count("tf.verify." + tf["mode"])
                    return {"mode": tf["mode"], "variant": tf.get("variant", 0)}
            self.world.tool.fault_hook = hook
        key = None
        inv0 = len(self.world.tool.invocations)
        try:
            if typ == "inline":
                self.store.load("inline", body)
                key = self.store.ii
            elif typ == "file":
                path = os.path.join(self.tmp, "src%d.xml" % sid)
                if fault == "missing":
                    if os.path.exists(path):
                        os.unlink(path)
                else:
                    with open(path, "wb") as f:
                        f.write(body)
                key = path
                if ev.get("via_imp"):
                    # the route a configuration file takes: MetadataStore.imp() with a loader class
                    fspec = (path,) if ev.get("cert_conf") is None else (path, cert_file(ev["cert_conf"]))
                    self.store.imp([{"class": "saml2_tophat.mdstore.MetaDataFile", "metadata": [fspec]}])
                    self.count("load.via-imp" + (".file-with-cert" if len(fspec) == 2 else ""))
                else:
                    self.store.load("local", path)
            elif typ == "loader":
                self.loader_content[sid] = body

                def loader(sid=sid, fault=fault):
                    if fault == "missing":
                        raise IOError("loader source unavailable")
                    return self.loader_content[sid]
                loader.__name__ = "loader%d" % sid
                key = "loader%d" % sid
                # the store keys loader sources by the callable: keep one callable per source id
                if not hasattr(self, "_loaders"):
                    self._loaders = {}
                if sid not in self._loaders or fault == "missing" or True:
                    self._loaders[sid] = loader
                self.store.load("loader", loader)
                key = loader
            elif typ == "remote":
                url = "https://mdq.sim.example/src%d.xml" % sid
                key = url
                if fault == "404":
                    self.remote[url] = (404, b"gone")
                elif fault == "500":
                    self.remote[url] = (500, b"oops")
                elif fault == "conn":
                    self.remote[url] = ("conn", b"")
                else:
                    self.remote[url] = (200, body)
                kw = {"url": url}
                cc = ev.get("cert_conf")
                if cc is not None:
                    kw["cert"] = cert_file(cc)
                if doc["wrapper"] == "entity":
                    kw["node_name"] = "%s:EntityDescriptor" % MD
                if ev.get("via_config") and doc["wrapper"] != "entity":
                    # the process restarts and builds its store from its configuration file (old-style
                    # `metadata: {remote: [{url, cert}]}`), with or without the TLS option spelled out: from now on
                    # the store holds this one source
                    self.store = MetadataStore(ac_factory(), self.base_conf)
                    self.model = {}
                    cnf = {"entityid": "https://md.sim.example/me", "xmlsec_binary": seams.FAKE_BIN,
                           "key_file": key_file(0), "cert_file": cert_file(0),
                           "metadata": {"remote": [dict(kw)]}}
                    if ev.get("tls_opt") is not None:
                        cnf["disable_ssl_certificate_validation"] = ev["tls_opt"]
                    c_ = Config()
                    c_.load(cnf)
                    self.store = c_.metadata
                    self.count("load.via-config-restart")
                elif ev.get("via_imp") and doc["wrapper"] != "entity":
                    spec = (url, kw["cert"]) if "cert" in kw else (url,)
                    self.store.imp([{"class": "saml2_tophat.mdstore.MetaDataExtern", "metadata": [spec]}])
                    self.count("load.via-imp")
                else:
                    self.store.load("remote", **kw)
            rec["loaded"] = True
        except Exception as e:
            rec["loaded"] = False
            rec["exc"] = type(e).__name__
        # ---- what must be true of this load
        doc_expired = doc["wrapper"] != "entity" and doc.get("valid_until") is not None and now > now + doc["valid_until"]
        must_fail = []
        if fault in ("missing", "404", "500", "conn", "empty"):
            must_fail.append("source-fault:" + fault)
        if doc_expired:
            must_fail.append("document-expired")
        verifying = (typ == "remote" or (typ == "file" and ev.get("via_imp"))) \
            and ev.get("cert_conf") is not None and sign_key is not None
        if verifying and fault in ("garbled", "truncated"):
            # ground truth for the bytes as delivered: does the document still carry a ds:Signature (a flipped
            # byte in the namespace declaration turns it into an unsigned document, which the store accepts by
            # design), and does that signature still verify (a flip in insignificant base64 bits changes nothing)?
            still_signed, still_valid = False, False
            try:
                r_ = ET.fromstring(body)
                still_signed = r_.find(q(DS, "Signature")) is not None
                if still_signed:
                    from engines.fedsim import fixture_pub
                    node = "%s:%s" % (MD, "EntitiesDescriptor" if doc["wrapper"] != "entity" else "EntityDescriptor")
                    still_valid = simxmlsec.verify_document(body, fixture_pub(ev["cert_conf"]), node, "ID", None)[0]
            except Exception:
                pass
            verifying = still_signed
            if still_signed and not still_valid:
                must_fail.append("signed-document-corrupted")
        elif verifying and (ev["cert_conf"] != sign_key):
            must_fail.append("signature-under-wrong-cert")
        if verifying and tf:
            must_fail.append("verification-tool-fault")
        if verifying and not any(v["op"] == "verify" and v["genuine_ok"] and v.get("key") == "k%d" % ev["cert_conf"]
                                 for v in self.world.tool.invocations[inv0:]):
            # whatever the reason (no verifier at hand, a skipped branch): a signed document from a source that
            # is configured with a certificate contributes nothing unless the tool really vouched for it.
            # (A load that *failed* without getting as far as the verification is judged like any failed load -
            # except for file sources, which this code base cannot verify at all: DESIGN.md section 15.)
            if rec["loaded"] or typ == "file":
                must_fail.append("signature-never-verified")
        clean = not fault and not tf
        corrupted = fault in ("garbled", "truncated")
        # (when the bytes were corrupted the corruption may have hit the validUntil attribute: expiry is not
        # demanded then; the signature rules, decided from the bytes as delivered, still are)
        hard = [m for m in must_fail if not (corrupted and m == "document-expired")]
        if hard:
            # What matters is not *how* the load ends (an exception, or a quiet return with nothing parsed) but
            # that a source that must not be trusted contributes no entity.
            elsewhere = set()
            for k_, ents_ in self.model.items():
                if k_ != self._mkey(key) and ents_:
                    elsewhere.update(ents_.keys())
            if any(v is None for v in self.model.values()):
                elsewhere = None            # a source with unknown contents may hold anything
            try:
                served = set(self.store.keys())
            except Exception:
                served = set()
            leaked = [e["id"] for e in doc["entities"] if e["id"] in served
                      and elsewhere is not None and e["id"] not in elsewhere
                      and not (rec["loaded"] is False and e["id"] in (self.model.get(self._mkey(key)) or {}))]
            self.count("oracle.untrusted-source-judged")
            if leaked:
                self.viol(i, "load-succeeded." + hard[0].split(":")[0],
                          "type=%s reasons=%s entities served although the source must not be trusted: %s" % (typ, hard, leaked[:3]))
                return
            if rec["loaded"]:
                self.count("load.quiet-nothing")
                self.model[self._mkey(key)] = {}        # the (re)load replaced the source by an empty one
            else:
                self.count("load.failed." + rec.get("exc", "?"))
            return
        if rec["loaded"]:
            self.count("load.ok")
            if corrupted:
                # the parse may legitimately have produced something else or nothing: contents unspecified
                self.model[self._mkey(key)] = None       # unknown contents: exclude from exactness checks
                self.count("load.ok.corrupted-unsigned")
                return
            ents = {}
            for e in doc["entities"]:
                if e.get("valid_until") is not None and now > now + e["valid_until"]:
                    self.count("probe.entity-expired-at-load")
                    continue
                if e["id"] in ents:
                    self.count("probe.duplicate-in-document")
                    continue
                roles = {r: rd for r, rd in e["roles"].items() if SAMLP in rd.get("protocols", SAMLP).split(" ")}
                if not roles:
                    self.count("probe.no-saml2-role")
                    continue
                ee = copy.deepcopy(e)
                ee["roles"] = copy.deepcopy(roles)
                if ee.get("roles_b"):
                    ee["roles_b"] = {k: v for k, v in ee["roles_b"].items() if k in roles}
                ents[e["id"]] = ee
            self.model[self._mkey(key)] = ents
        else:
            self.count("load.failed." + rec.get("exc", "?"))
            if clean and not must_fail:
                self.viol(i, "valid-source-failed-to-load", "type=%s exc=%s signed=%s cert_conf=%s" % (
                    typ, rec.get("exc"), sign_key, ev.get("cert_conf")))

    def _mkey(self, key):
        return key if isinstance(key, (str, int)) else id(key)

    def op_jump(self, ev, i, rec):
        self.consist = {}
        self.world.clock.jump(None, ev["delta"])
        self.count("fault.clock-jump")

    # ---------------------------------------------------------------- lookups
    def holders(self, eid):
        """Sources (in store order) whose successfully loaded, unexpired content holds the entity.
        -> (list of entity specs, unknown_contents: bool)"""
        res = []
        unknown = False
        for k, ents in self.model.items():
            if ents is None:
                unknown = True
                continue
            if eid in ents:
                res.append(ents[eid])
        return res, unknown

    def op_lookup(self, ev, i, rec):
        kind = ev["kind"]
        eid = ev["entity"]
        hs, unknown = self.holders(eid)
        if unknown:
            self.count("lookup.skipped-unknown-contents")
            return
        st = self.store
        try:
            if kind == "service":
                role, svc, binding = ev["role"], ev["service"], B[ev["binding"]]
                typ = role + "_descriptor"
                if ev.get("api") == "named":
                    if svc == "single_sign_on_service":
                        got = st.single_sign_on_service(eid, binding)
                    elif svc == "assertion_consumer_service":
                        got = st.assertion_consumer_service(eid, binding)
                    elif svc == "single_logout_service":
                        got = st.single_logout_service(eid, binding, role)
                    elif svc == "attribute_service":
                        got = st.attribute_service(eid, binding)
                    else:
                        got = st.service(eid, typ, svc, binding)
                else:
                    got = st.service(eid, typ, svc, binding)
                out = ("ok", [(g["binding"], g["location"], g.get("index")) for g in got])
            elif kind == "certs":
                got = st.certs(eid, ev.get("descriptor", "any"), ev["use"])
                out = ("ok", ["".join(c.split()) for c in got])
            elif kind == "categories":
                what = ev.get("what", "categories")
                if what == "support":
                    out = ("ok", list(st.supported_entity_categories(eid)))
                elif what == "all":
                    out = ("ok", {k: list(v) for k, v in st.entity_attributes(eid).items()})
                else:
                    out = ("ok", list(st.entity_categories(eid)))
            elif kind == "requirement":
                got = st.attribute_requirement(eid, ev.get("index"))
                out = ("ok", None if got is None else
                       {"required": [a["name"] for a in got["required"]], "optional": [a["name"] for a in got["optional"]]})
            elif kind == "providers":
                out = ("ok", {"idps": sorted(st.identity_providers()), "sps": sorted(st.service_providers())})
            else:
                return
        except Exception as e:
            out = ("exc", type(e).__name__)
        rec["out"] = out[0] if out[0] == "exc" else "ok"
        self.count("lookup." + kind)
        getattr(self, "judge_" + kind)(ev, i, hs, out)

    def judge_service(self, ev, i, hs, out):
        role, svc, binding = ev["role"], ev["service"], B[ev["binding"]]
        if not hs:
            if out != ("exc", "UnknownSystemEntity"):
                self.viol(i, "unknown-entity-not-reported", "entity=%s out=%r" % (ev["entity"], out))
            else:
                self.count("oracle.unknown-entity")
            return
        cands = []
        aligned = []
        has_role = False
        for e in hs:
            rd = e["roles"].get(role)
            if rd is None:
                aligned.append(None)
                continue
            has_role = True
            rd_b = (e.get("roles_b") or {}).get(role) or {}
            eps = [(B[x[0]], x[1], (str(x[2]) if svc == "assertion_consumer_service" else None))
                   for x in list(rd.get(svc, [])) + list(rd_b.get(svc, [])) if B[x[0]] == binding]
            cands.append(eps)
            aligned.append(eps)
        if not has_role:
            if out[0] == "ok" and out[1]:
                self.viol(i, "service-for-missing-role", "entity=%s role=%s got=%r" % (ev["entity"], role, out[1]))
            return
        nonempty = [c for c in cands if c]
        if not nonempty:
            if out == ("exc", "UnsupportedBinding"):
                self.count("oracle.unsupported-binding")
                return
            if out[0] == "ok" and out[1]:
                self.viol(i, "endpoints-not-declared", "entity=%s %s/%s/%s got=%r" % (ev["entity"], role, svc, ev["binding"], out[1]))
            elif out == ("exc", "UnknownSystemEntity") and len(hs) == sum(1 for e in hs if e["roles"].get(role)):
                self.viol(i, "known-entity-reported-unknown", "entity=%s %s/%s/%s" % (ev["entity"], role, svc, ev["binding"]))
            return
        if out[0] != "ok":
            self.viol(i, "declared-endpoints-not-served", "entity=%s %s/%s/%s out=%r declared=%r" % (
                ev["entity"], role, svc, ev["binding"], out, nonempty[0]))
            return
        got = [(b, l, (str(ix) if ix is not None else None)) for b, l, ix in out[1]]
        self.count("oracle.service.exact")
        if len(hs) > 1:
            self.count("probe.entity-in-several-sources")
        if got not in nonempty:
            self.viol(i, "endpoints-differ-from-declared", "entity=%s %s/%s/%s got=%r declared(one of)=%r" % (
                ev["entity"], role, svc, ev["binding"], got, nonempty))
        elif aligned and aligned[0]:
            # (the first source that holds the entity declares this service: the answer is its own)
            self.note_consistency(ev["entity"], hs, set(j for j, c in enumerate(aligned) if c == got), i, "endpoints")

    def note_consistency(self, eid, hs, idxs, i, what):
        """An entity declared by several loaded documents: whichever document answers, the answers about one entity
        come from one document - endpoints of one paired with keys of another is something no document declares."""
        if len(hs) < 2 or not idxs:
            return
        if not hasattr(self, "consist"):
            self.consist = {}
        prev = self.consist.get(eid)
        cur = idxs if prev is None else (prev[0] & idxs)
        if not cur:
            self.viol(i, "answers-mix-several-documents", "entity=%s: %s answered from document(s) %s of its %d holders, %s from %s" % (
                eid, what, sorted(idxs), len(hs), prev[1], sorted(prev[0])))
            return
        self.consist[eid] = (cur, what if prev is None else prev[1] + "+" + what)
        self.count("oracle.answers-consistent-across-documents")

    def judge_certs(self, ev, i, hs, out):
        if not hs:
            if out[0] == "ok" and out[1]:
                self.viol(i, "certs-for-unknown-entity", "entity=%s got %d certs" % (ev["entity"], len(out[1])))
            return
        use = ev["use"]
        desc = ev.get("descriptor", "any")
        cands = []
        for e in hs:
            res = []
            order = ["spsso", "idpsso", "attribute_authority"] if desc == "any" else [desc]
            missing_role = False
            for role in order:
                rd = e["roles"].get(role)
                if rd is None:
                    if desc != "any":
                        missing_role = True
                    continue
                for u, k in rd.get("keys", []):
                    if u == use or not u:
                        c = cert_b64(k)
                        if c not in res:
                            res.append(c)
            cands.append(None if missing_role else res)
        if out[0] != "ok":
            if any(c is None for c in cands):
                return      # one of the holding sources does not declare that role at all
            self.viol(i, "certs-lookup-failed", "entity=%s out=%r" % (ev["entity"], out))
            return
        self.count("oracle.certs.exact")
        # the same certificate declared under two roles may be listed twice: compare as sets
        if any(c is not None and set(c) == set(out[1]) for c in cands):
            self.note_consistency(ev["entity"], hs, set(j for j, c in enumerate(cands) if c is not None and set(c) == set(out[1])),
                                  i, "certificates")
        if not any(c is not None and set(c) == set(out[1]) for c in cands):
            def lab(cs):
                return [next(("k%d" % j for j in range(12) if cert_b64(j) == c), "?") for c in cs]
            self.viol(i, "certs-differ-from-declared", "entity=%s descriptor=%s use=%s got=%r declared(one of)=%r" % (
                ev["entity"], desc, use, lab(out[1]), [c if c is None else lab(c) for c in cands]))

    def judge_categories(self, ev, i, hs, out):
        if out[0] != "ok":
            if hs:
                self.viol(i, "categories-lookup-failed", repr(out))
            return
        if not hs:
            if out[1]:
                self.viol(i, "categories-for-unknown-entity", repr(out[1]))
            return
        self.count("oracle.categories.exact")
        what = ev.get("what", "categories")
        if what == "all":
            want = [{k: sorted(v) for k, v in entity_attrs_of(e).items()} for e in hs]
            got = {k: sorted(v) for k, v in out[1].items()}
        else:
            key = "categories_support" if what == "support" else "categories"
            want = [sorted(e.get(key) or []) for e in hs]
            got = sorted(out[1])
        if got not in want:
            self.viol(i, "categories-differ", "entity=%s %s got=%r declared(one of)=%r" % (ev["entity"], what, got, want))

    def judge_requirement(self, ev, i, hs, out):
        if out[0] != "ok":
            if hs:
                self.viol(i, "requirement-lookup-failed", repr(out))
            return
        if not hs:
            if out[1] and (out[1]["required"] or out[1]["optional"]):
                self.viol(i, "requirement-for-unknown-entity", repr(out[1]))
            return
        idx = ev.get("index")
        cands = []
        for e in hs:
            rd = e["roles"].get("spsso")
            if rd is None:
                cands.append(None)
                continue
            req, opt = [], []
            for acs in rd.get("acs_attr", []):
                if idx is not None and str(acs["index"]) != str(idx):
                    continue
                for name, required in acs["requested"]:
                    (req if required else opt).append(name)
            cands.append({"required": req, "optional": opt})
        self.count("oracle.requirement.exact")
        got = out[1]
        if got is None:
            got = {"required": [], "optional": []}      # "no requirements" is reported as None
        ok = False
        for c in cands:
            if c is None and (got is None or (not got["required"] and not got["optional"])):
                ok = True
            elif c is not None and got is not None and sorted(c["required"]) == sorted(got["required"]) \
                    and sorted(c["optional"]) == sorted(got["optional"]):
                ok = True
        if not ok:
            self.viol(i, "requirement-differs", "entity=%s index=%s got=%r declared(one of)=%r" % (ev["entity"], idx, got, cands))

    def judge_providers(self, ev, i, hs, out):
        if out[0] != "ok":
            self.viol(i, "providers-lookup-failed", repr(out))
            return
        if any(v is None for v in self.model.values()):
            return
        idps, sps = set(), set()
        for ents in self.model.values():
            for eid, e in ents.items():
                if "idpsso" in e["roles"]:
                    idps.add(eid)
                if "spsso" in e["roles"]:
                    sps.add(eid)
        # an id held by several sources with different roles: either may be reported
        self.count("oracle.providers")
        rt = getattr(self, "_rt", set())
        out = (out[0], {"idps": [x for x in out[1]["idps"] if x not in rt], "sps": [x for x in out[1]["sps"] if x not in rt]})
        if not (set(out[1]["idps"]) <= idps and set(out[1]["sps"]) <= sps):
            self.viol(i, "providers-not-declared", "got=%r declared idps=%r sps=%r" % (out[1], sorted(idps), sorted(sps)))
        single = {}
        for ents in self.model.values():
            for eid in ents:
                single[eid] = single.get(eid, 0) + 1
        for eid in idps:
            if single[eid] == 1 and eid not in out[1]["idps"]:
                self.viol(i, "declared-idp-not-listed", eid)
                return

    # ---------------------------------------------------------------- round trip of node configs
    @staticmethod
    def _acs_or_empty(st, eid, binding):
        if binding is None:
            return []
        try:
            return st.assertion_consumer_service(eid, binding) or []
        except Exception:
            return []

    def op_roundtrip(self, ev, i, rec):
        spec = ev["spec"]
        xml = fed.metadata_xml(spec)
        try:
            self.store.load("inline", xml)
        except Exception as e:
            self.viol(i, "generated-metadata-does-not-load", "%s: %s" % (type(e).__name__, e))
            return
        eid = fed.entity_of(spec)
        self.count("roundtrip")
        st = self.store
        try:
            if spec["kind"] == "idp":
                ep = fed.idp_endpoints(spec["name"])
                want = {"redirect": [ep["sso_redirect"]], "post": [ep["sso_post"]]}
                for b, locs in want.items():
                    got = [s["location"] for s in st.single_sign_on_service(eid, B[b])]
                    if got != locs:
                        self.viol(i, "roundtrip-endpoints-differ", "sso %s got=%r want=%r" % (b, got, locs))
                        return
                got = [s["location"] for s in st.single_logout_service(eid, B["soap"], "idpsso")]
                if got != [ep["slo_soap"]]:
                    self.viol(i, "roundtrip-endpoints-differ", "slo soap got=%r" % got)
                    return
            else:
                ep = fed.sp_endpoints(spec)
                got = [(s["location"], s["index"]) for s in st.assertion_consumer_service(eid, B["post"])]
                want = [ep["acs_post"]] + ([ep["acs_post2"]] if spec.get("acs2") else [])
                if [g[0] for g in got] != want or len(set(g[1] for g in got)) != len(got):
                    self.viol(i, "roundtrip-endpoints-differ", "acs post got=%r want=%r" % (got, want))
                    return
                if spec.get("acs_index"):
                    # explicit indexes come back as configured
                    conf_acs = fed.base_config(spec)["service"]["sp"]["endpoints"]["assertion_consumer_service"]
                    want_ix = sorted((u_, str(ix_)) for (u_, b_, ix_) in conf_acs)
                    got_ix = sorted((s["location"], str(s["index"])) for b_ in ("post", "redirect", "artifact")
                                    for s in (self._acs_or_empty(st, eid, B.get(b_))))
                    self.count("probe.roundtrip.explicit-indexes")
                    if got_ix != want_ix:
                        self.viol(i, "roundtrip-endpoints-differ", "acs indexes got=%r configured=%r" % (got_ix, want_ix))
                        return
                got = [s["location"] for s in st.assertion_consumer_service(eid, B["redirect"])]
                if got != [ep["acs_redirect"]]:
                    self.viol(i, "roundtrip-endpoints-differ", "acs redirect got=%r" % got)
                    return
            usage = spec.get("md_key_usage", "both")
            want_sign = ([cert_b64(spec["key"])] + [cert_b64(k) for k in spec.get("extra_certs", [])]) if usage in ("both", "signing") else []
            if usage in ("both", "encryption"):
                want_enc = [cert_b64(k) for k in spec.get("enc_keys", [])]
            else:
                want_enc = []
            got_sign = ["".join(c.split()) for c in st.certs(eid, "any", "signing")]
            got_enc = ["".join(c.split()) for c in st.certs(eid, "any", "encryption")]
            if set(got_sign) != set(want_sign) or set(got_enc) != set(want_enc):
                self.viol(i, "roundtrip-keys-differ", "signing got %d want %d; encryption got %d want %d" % (
                    len(got_sign), len(want_sign), len(got_enc), len(want_enc)))
        except Exception as e:
            self.viol(i, "roundtrip-lookup-failed", "%s: %s" % (type(e).__name__, e))
        # keep the model in step: this inline source holds only the round-tripped entity (never looked up by id)
        self.model[self.store.ii] = {}
        self._rt = getattr(self, "_rt", set())
        self._rt.add(eid)


# ------------------------------------------------------------------------------------ generator

def gen_entity(r, idx, dup_of=None):
    eid = dup_of or "https://e%d.md.example/entity" % idx
    roles = {}
    kinds = r.pick([["idpsso"], ["spsso"], ["idpsso", "attribute_authority"], ["spsso", "idpsso"], ["attribute_authority"]])
    base = "https://e%d-%d.md.example" % (idx, r.randrange(100))
    for role in kinds:
        rd = {"keys": []}
        for _ in range(r.randrange(0, 3)):
            rd["keys"].append((r.pick(["signing", "encryption", None]), r.randrange(12)))
        if r.chance(0.1):
            rd["protocols"] = r.pick(["urn:oasis:names:tc:SAML:1.1:protocol", SAMLP + " urn:oasis:names:tc:SAML:1.1:protocol"])
        if role == "idpsso":
            rd["single_sign_on_service"] = [(r.pick(["redirect", "post"]), base + "/sso/%d" % j) for j in range(r.randrange(1, 4))]
            rd["single_logout_service"] = [(r.pick(["redirect", "post", "soap"]), base + "/slo/%d" % j) for j in range(r.randrange(0, 3))]
        elif role == "spsso":
            rd["assertion_consumer_service"] = [(r.pick(["redirect", "post"]), base + "/acs/%d" % j, j + 1) for j in range(r.randrange(1, 4))]
            rd["single_logout_service"] = [(r.pick(["redirect", "post", "soap"]), base + "/slo/%d" % j) for j in range(r.randrange(0, 3))]
            rd["acs_attr"] = []
            # service indexes are unsignedShort values: small ones, and ones whose decimal spelling contains another
            idx_pool = r.pick([[1, 2, 3], [1, 2, 3], [0, 10, 1], [1, 2, 12], [2, 21, 12], [5, 15, 51]])
            for j in range(r.randrange(0, 4)):
                rd["acs_attr"].append({"index": idx_pool[j % 3] if j < 3 else 100 + j, "requested": [
                    ("urn:oid:2.5.4.%d" % r.randrange(3, 50), r.pick([True, False, None])) for _ in range(r.randrange(1, 4))]})
        else:
            rd["attribute_service"] = [(r.pick(["soap", "soap", "post"]), base + "/aa/%d" % j) for j in range(r.randrange(1, 3))]
        roles[role] = rd
    e = {"id": eid, "roles": roles}
    if r.chance(0.2):
        # a second descriptor of a kind the entity already has (endpoints only, no keys of its own)
        kind_ = r.pick([k_ for k_ in roles if k_ != "spsso"] or [None])
        if kind_ == "idpsso":
            e["roles_b"] = {kind_: {"single_sign_on_service": [(r.pick(["redirect", "post"]), base + "/b/sso/%d" % j) for j in range(r.randrange(1, 3))],
                                    "single_logout_service": [(r.pick(["redirect", "post", "soap"]), base + "/b/slo/%d" % j) for j in range(r.randrange(0, 2))]}}
        elif kind_ == "attribute_authority":
            e["roles_b"] = {kind_: {"attribute_service": [(r.pick(["soap", "post"]), base + "/b/aa/%d" % j) for j in range(r.randrange(1, 3))]}}
        if e.get("roles_b") and roles[kind_].get("protocols"):
            # (same protocol support as its sibling: what happens to a SAML 1.1-only descriptor next to a SAML 2.0
            # one of the same kind is not specified by the property - DESIGN.md section 15)
            e["roles_b"][kind_]["protocols"] = roles[kind_]["protocols"]
    if r.chance(0.25):
        e["valid_until"] = r.pick([-86400, -2, -1, 0, 1, 2, 3600, 86400])
        if r.chance(0.3):
            e["vu_style"] = r.pick(["frac:.000", "frac:.0000000", "frac:.123456789", "frac:.5"])
    if r.chance(0.4):
        e["categories"] = r.sample(["http://refeds.org/category/research-and-scholarship",
                                    "http://www.geant.net/uri/dataprotection-code-of-conduct/v1",
                                    "http://example.org/cat/x"], r.randrange(1, 3))
    if r.chance(0.25):
        e["categories_support"] = r.sample(["http://refeds.org/category/research-and-scholarship",
                                            "http://www.geant.net/uri/dataprotection-code-of-conduct/v1",
                                            "http://example.org/cat/y"], r.randrange(1, 3))
    if r.chance(0.15):
        e["other_attrs"] = {"urn:oasis:names:tc:SAML:attribute:assurance-certification":
                            [r.pick(["https://refeds.org/sirtfi", "https://example.org/loa2"])]}
    return e


def generate(seed, prop, tier):
    r = mkrng(seed, "workload")
    rf = mkrng(seed, "faults")
    faulty = seed % 3 != 0
    nsrc = r.randrange(1, 5)
    evs = []
    pool_ids = []
    declared = {}
    nent = 0
    n = r.randrange(4, 12) if tier == "quick" else r.randrange(6, 30)
    src_types = {}
    for step in range(n):
        k = r.weighted([("load", 4), ("lookup", 8), ("jump", 1 if faulty else 0), ("roundtrip", 1)])
        if k == "load" or not pool_ids:
            sid = r.randrange(nsrc)
            typ = src_types.setdefault(sid, r.pick(["inline", "file", "remote"]))
            ents = []
            for _ in range(r.randrange(1, 9 if tier != "quick" else 5)):
                nent += 1
                dup = r.pick(pool_ids) if pool_ids and r.chance(0.2) else None
                e = gen_entity(r, nent, dup)
                ents.append(e)
                if e["id"] not in pool_ids:
                    pool_ids.append(e["id"])
                declared.setdefault(e["id"], []).append(e)
            if r.chance(0.25):
                # ... followed, in the same document, by a different entity whose entityID is the same URI padded with
                # white space (legal for xs:anyURI, seen in real feeds): two entities, neither replaces the other
                nent += 1
                tw = gen_entity(r, nent, None)
                tw["id"] = r.pick(ents)["id"].rstrip() + r.pick([" ", "  "])
                if tw["id"] not in [x["id"] for x in ents]:
                    ents.append(tw)
                    if tw["id"] not in pool_ids:
                        pool_ids.append(tw["id"])
                    declared.setdefault(tw["id"], []).append(tw)
            wrapper = "entity" if len(ents) == 1 and r.chance(0.5) else "entities"
            doc = {"wrapper": wrapper, "name": "fed%d" % step, "entities": ents if wrapper == "entities" else ents[:1]}
            if wrapper == "entities" and r.chance(0.3):
                doc["valid_until"] = r.pick([-86400, -1, 0, 1, 3600])
                if r.chance(0.3):
                    doc["vu_style"] = r.pick(["frac:.000", "frac:.0000000", "frac:.123456789"])
            ev = {"k": "load", "src": sid, "type": typ, "doc": doc, "dt": r.pick([0, 1, 1.5, 30]), "sub": r.getrandbits(32)}
            if typ in ("file", "remote") and r.chance(0.3):
                ev["via_imp"] = True
            elif typ == "remote" and wrapper == "entities" and r.chance(0.3):
                ev["via_config"] = True
                ev["tls_opt"] = r.pick([None, None, False, True])
                if r.chance(0.4):
                    doc["valid_until"] = r.pick([-86400, -1, -1])      # a feed that has expired as a whole
            if typ == "remote" and (wrapper == "entities" or not ev.get("via_imp")) and r.chance(0.6):
                # (signed aggregates, and signed stand-alone EntityDescriptor documents - MDQ style)
                ev["sign"] = r.randrange(12)
                ev["cert_conf"] = r.pick([ev["sign"], ev["sign"], (ev["sign"] + 1) % 12, None])
            elif typ == "file" and ev.get("via_imp") and wrapper == "entities" and r.chance(0.5):
                # a signed federation file listed with a verification certificate in the configuration
                ev["sign"] = r.randrange(12)
                ev["cert_conf"] = r.pick([ev["sign"], (ev["sign"] + 1) % 12])
            if faulty and rf.chance(0.35):
                ev["fault"] = rf.pick({"inline": ["truncated", "garbled", "empty"],
                                       "file": ["missing", "truncated", "garbled", "empty"],
                                       "loader": ["missing", "truncated", "garbled", "empty"],
                                       "remote": ["404", "500", "conn", "truncated", "garbled", "empty"]}[typ])
                ev["frac"] = rf.random()
                # after the fault is cleared the same source loads and serves (bounded liveness: one op)
                evs.append(ev)
                ev2 = dict(ev)
                ev2.pop("fault")
                ev2["dt"] = 1
                evs.append(ev2)
                continue
            if faulty and ev.get("sign") is not None and ev.get("cert_conf") is not None and rf.chance(0.3):
                ev["tf"] = {"mode": rf.pick(modes_for("verify")), "variant": rf.getrandbits(20)}
                evs.append(ev)
                ev2 = dict(ev)
                ev2.pop("tf")
                evs.append(ev2)
                continue
            evs.append(ev)
        elif k == "jump":
            evs.append({"k": "jump", "delta": rf.pick([-3600, -2, 2, 3600, 86400])})
        elif k == "roundtrip":
            if r.chance(0.5):
                spec = {"kind": "idp", "name": "rt%d" % step, "key": r.randrange(12)}
                if r.chance(0.3):
                    spec["extra_certs"] = [r.randrange(12)]
            else:
                spec = {"kind": "sp", "name": "rt%d" % step, "key": r.randrange(12), "tenant": "m",
                        "enc_keys": r.pick([[], [r.randrange(12)], [r.randrange(12), r.randrange(12)]]),
                        "acs2": r.chance(0.3)}
                if r.chance(0.4):
                    spec["acs_index"] = r.pick([[0, 1, 2], [1, 0, 2], [2, 5, 0], [1, 2, 3], [7, 3, 9]])
            evs.append({"k": "roundtrip", "spec": spec})
        else:
            eid = r.pick(pool_ids) if r.chance(0.85) else "https://unknown%d.md.example/entity" % r.randrange(3)
            kind = r.weighted([("service", 6), ("certs", 3), ("categories", 2), ("requirement", 2), ("providers", 1)])
            ev = {"k": "lookup", "kind": kind, "entity": eid}
            if kind == "categories":
                ev["what"] = r.pick(["categories", "support", "all"])
            if kind == "service":
                role = r.pick(["idpsso", "spsso", "attribute_authority"])
                svc = r.pick(ROLE_SERVICES[role])
                binding = r.pick(["redirect", "post", "soap"])
                if eid in declared and r.chance(0.75):
                    # aim at something one of the documents declares for this entity
                    e = r.pick(declared[eid])
                    role = r.pick(sorted(e["roles"]))
                    svcs = [s_ for s_ in ROLE_SERVICES[role] if e["roles"][role].get(s_)]
                    if svcs:
                        svc = r.pick(svcs)
                        binding = r.pick(e["roles"][role][svc])[0] if r.chance(0.8) else binding
                ev.update({"role": role, "service": svc, "binding": binding, "api": r.pick(["generic", "named"])})
            elif kind == "certs":
                ev.update({"use": r.pick(["signing", "encryption"]), "descriptor": r.pick(["any", "any", "idpsso", "spsso"])})
            elif kind == "requirement":
                ev.update({"index": r.pick([None, None, "1", "2", "12", "21", "10", "0", "15", "3"])})
                if eid in declared and r.chance(0.5):
                    idxs = [str(a_["index"]) for e_ in declared[eid] for a_ in (e_["roles"].get("spsso") or {}).get("acs_attr", [])]
                    if idxs:
                        ev["index"] = r.pick(idxs)
            evs.append(ev)
            if r.chance(0.3):
                # the same question again (and again): a lookup must not change what the store holds
                for _ in range(r.randrange(1, 3)):
                    evs.append(dict(ev))
    return {"engine": "mdsim", "prop": "C16", "seed": seed, "tier": tier, "knobs": {"class": "faulty" if faulty else "clean", "nsrc": nsrc},
            "events": evs}


def execute(sc):
    sim = MdSim(sc).run()
    sig_items = [(h["k"], h.get("type"), h.get("fault"), h.get("loaded"), h.get("out")) for h in sim.history]
    signature = hashlib.sha1(json.dumps(sig_items, default=str).encode()).hexdigest()[:16]
    digest = hashlib.sha256(json.dumps([sim.history, sim.violations], sort_keys=True, default=str).encode()).hexdigest()
    counters = dict(sim.counters)
    for k, v in sim.world.tool.counts.items():
        counters["tool." + k] = v
    for h in sim.history:
        if h.get("fault"):
            counters["fault.src." + h["fault"]] = counters.get("fault.src." + h["fault"], 0) + 1
    return {"violations": sim.violations, "signature": signature, "digest": digest, "counters": counters,
            "sim_seconds": sim.world.clock.t - sim.world.clock.start + sum(abs(v) for v in sim.world.clock.offsets.values()),
            "nontrivial": any(k.startswith("oracle.") for k in counters), "steps": len(sim.history),
            "sample": {"seed": sc["seed"], "knobs": sc.get("knobs"),
                       "events": [{k: (v if k != "doc" else {"wrapper": v["wrapper"], "valid_until": v.get("valid_until"),
                                                              "entities": [(e["id"], sorted(e["roles"]), e.get("valid_until")) for e in v["entities"]]})
                                   for k, v in e.items() if k not in ("sub", "spec")} for e in sc["events"][:8]],
                       "outcomes": [(h["k"], h.get("loaded"), h.get("exc"), h.get("out")) for h in sim.history[:8]]}}


_Q = {"det_sample": 8, "min_budget": 40, "run_timeout": 120, "wall": 50}
_T = {"det_sample": 32, "min_budget": 90, "run_timeout": 300, "wall": 900}
PLAN = {"C16": {"quick": dict(_Q, runs=15000), "thorough": dict(_T, runs=400000)}}
COMPONENTS = {"real": ["saml2_tophat.mdstore.MetadataStore / InMemoryMetaData / MetaDataFile / MetaDataExtern / MetaDataLoader",
                       "saml2_tophat.mdie.to_dict", "saml2_tophat.md / validate.valid_instance", "saml2_tophat.metadata.entity_descriptor (round trip)",
                       "saml2_tophat.sigver verification path for signed remote metadata", "real files in a per-run temp dir"],
              "stub": ["HTTP -> simulated network behind the `requests` seam", "xmlsec1 -> SimXmlsec", "wall clock -> SimClock",
                       "federation operators -> generated documents written with xml.etree from the ground-truth table"]}
RULE_TEXT = {"*": "one evaluation = one history of source loads (inline/file/remote/loader, with source, clock and tool faults) and lookups "
                  "against one MetadataStore, compared with the ground-truth table; non-trivial = at least one lookup was decided "
                  "against the table (exactness, unknown-entity or unsupported-binding rule); distinct = distinct sequence of "
                  "(op, source type, fault, loaded?, outcome class)"}
ASSUMPTIONS = {"*": ["'expired' is evaluated at load time (what the code does and what the quantifier describes); entities that expire "
                     "after being loaded are not demanded to disappear",
                     "no nested EntitiesDescriptor groups", "signature verification of metadata is exercised through remote sources "
                     "(the only loader the store hands a SecurityContext to) against the stub tool",
                     "contents of an unsigned document corrupted in transit are unspecified (excluded from exactness checks)"]}
