"""C20 runs two engines: five runs in six are federation runs (engine F, tool faults at response /
assertion / request verification, decryption, signing, encryption); every sixth run is a metadata
run (engine M) concentrated on *signed remote metadata checked against a configured certificate*
with a tool fault at the verification - the "metadata verification" invocation site of C20's
quantifier.  A metadata source that loads although its verification was faulted is a C20 violation
(and a C16 one)."""
from engines import fedengine, mdsim
from simcore.prng import rng as mkrng
from simcore.toolfaults import modes_for

PLAN = {"C20": fedengine.PLAN["C20"]}
COMPONENTS = {"real": fedengine.COMPONENTS["real"] + ["(every 6th run) " + x for x in mdsim.COMPONENTS["real"][:2]],
              "stub": fedengine.COMPONENTS["stub"] + ["(every 6th run) HTTP -> simulated network behind the `requests` seam"]}
RULE_TEXT = {"*": fedengine.RULE_TEXT["*"] + "; every sixth run is a metadata-store history (signed remote metadata, verification "
                  "tool faults), non-trivial when a faulted verification was judged"}
ASSUMPTIONS = fedengine.ASSUMPTIONS


def gen_md(seed, tier):
    r = mkrng(seed, "c20md")
    evs = []
    nent = 0
    for step in range(r.randrange(2, 6)):
        ents = []
        for _ in range(r.randrange(1, 4)):
            nent += 1
            ents.append(mdsim.gen_entity(r, nent))
            ents[-1].pop("valid_until", None)
        doc = {"wrapper": "entities", "name": "fed%d" % step, "entities": ents}
        key = r.randrange(12)
        ev = {"k": "load", "src": step, "type": "remote", "doc": doc, "dt": 1, "sub": r.getrandbits(32),
              "sign": key, "cert_conf": key if r.chance(0.75) else (key + 1) % 12, "via_imp": r.chance(0.3)}
        if r.chance(0.8):
            ev["tf"] = {"mode": r.pick(modes_for("verify")), "variant": r.getrandbits(20)}
            evs.append(ev)
            # what the faulted load left behind must not be served
            e0 = ents[0]
            role = sorted(e0["roles"])[0]
            svc = [s_ for s_ in mdsim.ROLE_SERVICES[role] if e0["roles"][role].get(s_)]
            if svc:
                evs.append({"k": "lookup", "kind": "service", "entity": e0["id"], "role": role, "service": svc[0],
                            "binding": e0["roles"][role][svc[0]][0][0], "api": "generic"})
            evs.append({"k": "lookup", "kind": "certs", "entity": e0["id"], "use": "signing", "descriptor": "any"})
            ev2 = dict(ev)
            ev2.pop("tf")
            evs.append(ev2)          # faults stopped: the same source loads and serves
        else:
            evs.append(ev)
        e0 = ents[0]
        evs.append({"k": "lookup", "kind": "certs", "entity": e0["id"], "use": r.pick(["signing", "encryption"]), "descriptor": "any"})
    return {"engine": "mdsim", "prop": "C20", "seed": seed, "tier": tier, "knobs": {"class": "metadata-verification-site"},
            "events": evs}


def generate(seed, prop, tier):
    if seed % 6 == 5:
        return gen_md(seed, tier)
    return fedengine.generate(seed, "C20", tier)


def execute(sc):
    if sc.get("engine") == "mdsim":
        res = mdsim.execute(sc)
        extra = []
        for v in res["violations"]:
            if v["rule"].startswith("load-succeeded.verification-tool-fault") or v["rule"].startswith("load-succeeded.signature"):
                extra.append(dict(v, prop="C20", rule="metadata." + v["rule"]))
        res["violations"] = res["violations"] + extra
        res["counters"]["mode.metadata-site"] = 1
        return res
    return fedengine.execute(sc)


def simplify(sc):
    if sc.get("engine") == "mdsim":
        return iter(())
    return fedengine.simplify(sc)
