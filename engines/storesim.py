"""Engine S: operation-history simulation of IdentDB (C18) and Cache/Population (C19) against
small executable reference models.  The clock, the identifier source (with the
`entropy-repeat` fault) and the storage back end (dict / shelve on dbm.dumb in a per-run temp
directory, with clean `reopen`) are behind seams.

A scenario is {"engine": "storesim", "prop", "seed", "backend", "events": [op dicts]}.  An
operation that raises is treated as failed with the state unchanged; the invariants are
re-checked after every step.
"""
import copy
import dbm
import dbm.dumb
import hashlib
import json
import os
import shelve
import shutil
import tempfile

from simcore import seams
from simcore.prng import rng as mkrng
from simcore.world import World

seams.bootstrap()

from saml2_tophat.ident import IdentDB, code, decode, Unknown  # noqa: E402
from saml2_tophat.cache import Cache, ToOld  # noqa: E402
from saml2_tophat.population import Population  # noqa: E402
from saml2_tophat.saml import NameID, NAMEID_FORMAT_PERSISTENT, NAMEID_FORMAT_TRANSIENT, \
    NAMEID_FORMAT_EMAILADDRESS  # noqa: E402
from saml2_tophat.samlp import NameIDPolicy, NewID, Terminate  # noqa: E402
from saml2_tophat.assertion import Policy  # noqa: E402
from saml2_tophat.s_utils import PolicyError  # noqa: E402

# one dbm flavour for every interpreter: the byte format must not depend on what is installed
dbm._defaultmod = dbm.dumb
dbm._modules = {"dbm.dumb": dbm.dumb}

FIELDS = ["name_qualifier", "sp_name_qualifier", "format", "sp_provided_id", "text"]
FORMATS = {"P": NAMEID_FORMAT_PERSISTENT, "T": NAMEID_FORMAT_TRANSIENT, "E": NAMEID_FORMAT_EMAILADDRESS}
HOSTILE_FIELD = [",", "=", " ", "%", "%2C", "%3D", "0=1", "1=x,2=y", "a b", "åä", "中", ";", "&", "/", "+", "\"", "'",
                 "%25", "=,=", ", ", "4=zz"]


def nid_tuple(n):
    return tuple((getattr(n, f) or "") for f in FIELDS)


def mk_nid(t):
    kw = {f: (v if v != "" else None) for f, v in zip(FIELDS, t)}
    return NameID(**kw)


class Violation(Exception):
    pass


# ======================================================================================= C18

class IdentSim(object):
    def __init__(self, sc):
        self.sc = sc
        self.world = World(sc["seed"], sc.get("tz"))
        self.violations = []
        self.history = []
        self.counters = {}
        self.tmp = None
        # model
        self.owner = {}        # text -> user   (live identifiers)
        self.live = {}         # user -> list of field tuples
        self.ever = set()      # every identifier text ever issued
        self.last_persistent = {}   # (user, spq, nq) -> text
        self.handles = []      # field tuples of identifiers seen so far (live or withdrawn), for op arguments

    def count(self, k, n=1):
        self.counters[k] = self.counters.get(k, 0) + n

    def viol(self, i, rule, detail):
        self.violations.append({"prop": "C18", "rule": rule, "detail": detail, "i": i})

    def open_db(self):
        if self.sc.get("backend") == "shelve":
            if self.tmp is None:
                self.tmp = tempfile.mkdtemp(prefix="verif-ident-")
            return shelve.open(os.path.join(self.tmp, "ident"), protocol=2)
        if not hasattr(self, "_dict"):
            self._dict = {}
        return self._dict

    def handle(self, ev):
        hs = self.handles
        if not hs:
            return None
        return hs[ev.get("h", 0) % len(hs)]

    def run(self):
        try:
            with self.world:
                self.db = IdentDB(self.open_db(), domain=self.sc.get("domain", "users.example.org"),
                                  name_qualifier=self.sc.get("nq", "https://idp.example.org/idp"))
                for i, ev in enumerate(self.sc["events"]):
                    rec = {"i": i, "k": ev["k"]}
                    try:
                        getattr(self, "op_" + ev["k"])(ev, i, rec)
                    except Violation:
                        pass
                    self.history.append(rec)
                    self.check_invariants(i)
                    if self.violations:
                        break
                self.db.close()
        finally:
            if self.tmp:
                shutil.rmtree(self.tmp, ignore_errors=True)
        return self

    # ------------------------------------------------------------- model helpers
    def m_issue(self, user, t, i, rec, fresh_required=True):
        text = t[4]
        rec["issued"] = text
        if not text:
            self.viol(i, "issued-without-text", "user=%s fields=%r" % (user, t))
            raise Violation()
        if fresh_required:
            if text in self.owner:
                self.viol(i, "issued-duplicate-of-live", "text=%s owner=%s new-user=%s" % (text, self.owner[text], user))
                raise Violation()
            if text in self.ever and not self.world.ids.repeats_fired:
                self.viol(i, "issued-not-fresh", "text=%s was issued earlier" % text)
                raise Violation()
        self.owner[text] = user
        self.live.setdefault(user, []).append(t)
        self.ever.add(text)
        if t not in self.handles:
            self.handles.append(t)

    def m_withdraw(self, t):
        text = t[4]
        u = self.owner.pop(text, None)
        if u is not None:
            self.live[u] = [x for x in self.live[u] if x[4] != text]

    def m_matches(self, user, spq, nq):
        res = []
        for t in self.live.get(user, []):
            if t[2] != NAMEID_FORMAT_PERSISTENT:
                continue        # only a persistent-format identifier is "the persistent identifier"
            if (t[1] or "") == (spq or "") and (t[0] or "") == (nq or ""):
                res.append(t)
        return res

    # ------------------------------------------------------------- operations
    def op_persistent(self, ev, i, rec):
        u, spq, nq = ev["u"], ev.get("spq", ""), ev.get("nq", "")
        before = self.m_matches(u, spq, nq)
        try:
            n = self.db.persistent_nameid(u, spq, nq)
        except Exception as e:
            rec["exc"] = type(e).__name__
            return
        t = nid_tuple(n)
        rec["ret"] = t[4]
        if before:
            self.count("probe.persistent.reused")
            if t[4] not in [b[4] for b in before]:
                self.viol(i, "persistent-not-stable", "user=%s spq=%r nq=%r had %r got %r" % (
                    u, spq, nq, [b[4] for b in before], t))
                raise Violation()
            # Which one is returned when the caller has issued *several* persistent-format identifiers for
            # the same (user, SP qualifier, name qualifier) through construct_nameid is not prescribed: the
            # statement speaks of "the" persistent identifier.  With exactly one, the rule above is stability.
            lp = self.last_persistent.get((u, spq, nq))
            if len(before) == 1 and lp and lp == before[0][4] and t[4] != lp:
                self.viol(i, "persistent-not-stable", "previous=%s now=%s" % (lp, t[4]))
                raise Violation()
            if len(before) > 1:
                self.count("probe.persistent.several-candidates")
        else:
            self.count("probe.persistent.created")
            if t[2] != NAMEID_FORMAT_PERSISTENT or (t[1] or "") != (spq or "") or (t[0] or "") != (nq or ""):
                self.viol(i, "persistent-wrong-fields", "asked spq=%r nq=%r got %r" % (spq, nq, t))
                raise Violation()
            self.m_issue(u, t, i, rec)
        self.last_persistent[(u, spq, nq)] = t[4]

    def op_transient(self, ev, i, rec):
        try:
            n = self.db.transient_nameid(ev["u"], ev.get("spq", ""), ev.get("nq", ""))
        except Exception as e:
            rec["exc"] = type(e).__name__
            return
        t = nid_tuple(n)
        if t[2] != NAMEID_FORMAT_TRANSIENT:
            self.viol(i, "transient-wrong-format", repr(t))
            raise Violation()
        self.m_issue(ev["u"], t, i, rec)

    def op_login(self, ev, i, rec):
        """The identifier an IdP picks when a user logs in at an SP: the real Server.gather_authn_response_args()
        (server.py is one of the property's anchors) run against the database under test - with a NameIDPolicy from
        the request, or without one (IdP-initiated login)."""
        from saml2_tophat.server import Server

        class _Conf(object):
            def getattr(self, *a, **kw):
                return None

        class _Idp(object):
            pass
        u, spq = ev["u"], ev["spq"]
        fmt = FORMATS[ev.get("fmt", "P")]
        idp = _Idp()
        idp.config = _Conf()
        idp.metadata = {spq: {"spsso_descriptor": [{}]}}
        idp.ident = self.db
        nip = None
        if ev.get("nip"):
            nip = NameIDPolicy(format=fmt, sp_name_qualifier=(spq if ev["nip"] == "with-spq" else None))
        pol = Policy({"default": {"nameid_format": fmt}})
        try:
            args = Server.gather_authn_response_args(idp, spq, nip, u, release_policy=pol, pefim=False,
                                                     encrypt_cert_advice=None, encrypt_cert_assertion=None)
        except Exception as e:
            rec["exc"] = type(e).__name__
            return
        t = nid_tuple(args["name_id"])
        rec["ret"] = t[4]
        self.count("oracle.login-identifier-judged")
        if (t[1] or "") != spq:
            self.viol(i, "login-handed-identifier-of-another-sp", "user=%s sp=%s policy=%s got %r" % (u, spq, ev.get("nip"), t))
            raise Violation()
        if t[4] in self.owner:
            if self.owner[t[4]] != u:
                self.viol(i, "login-handed-identifier-of-another-user", "user=%s got %r owned by %s" % (u, t, self.owner[t[4]]))
                raise Violation()
            self.count("probe.login.reused")
        else:
            self.m_issue(u, t, i, rec)

    def op_two_idps(self, ev, i, rec):
        """Two identity providers live in one process, each set up by the real Server.init_config() with the default
        (in-memory) subject database: what one of them issues means nothing to the other."""
        from saml2_tophat.server import Server

        class _Conf(object):
            def __init__(self, eid):
                self.entityid = eid

            def getattr(self, name, ctx=None):
                return {"domain": "users.example.org"}.get(name)

        class _Idp(object):
            pass
        idps = []
        for eid in ("https://idp-a.example.org/idp", "https://idp-b.example.org/idp"):
            o = _Idp()
            o.config = _Conf(eid)
            try:
                Server.init_config(o, "idp")
            except Exception as e:
                rec["exc"] = type(e).__name__
                return
            idps.append(o)
        a, b = idps
        self.count("oracle.two-idps-judged")
        u, spq = ev["u"], ev["spq"]
        na = a.ident.persistent_nameid(u, spq, "")
        ta = a.ident.transient_nameid(u, spq, "")
        for nid_ in (na, ta):
            got = b.ident.find_local_id(nid_)
            if got is not None:
                self.viol(i, "identifier-of-another-idp-resolves", "issued by %s for %s, resolves at %s to %r" % (
                    a.config.entityid, u, b.config.entityid, got))
                raise Violation()
        if b.ident.find_nameid(u):
            self.viol(i, "identifier-of-another-idp-listed", "user %s holds nothing at %s, listed: %d" % (
                u, b.config.entityid, len(b.ident.find_nameid(u))))
            raise Violation()
        nb_ = b.ident.persistent_nameid(u, spq, "")
        # (two separate databases cannot protect each other against a repeating entropy source: only judged when the
        # `entropy-repeat` fault is not in play)
        ids_ = self.world.ids
        if nb_.text == na.text and not ids_.repeats_fired and ids_.repeat_next is None:
            self.viol(i, "two-idps-share-persistent-identifier", "user %s sp %s text %s" % (u, spq, na.text))
            raise Violation()

    def op_fork(self, ev, i, rec):
        """A pre-forking server: the master process (library loaded, nothing issued from this database yet) forks a
        worker; master and worker each serve their own users from their own in-memory database.  The operating
        system's entropy source is per process (the simulated one is re-keyed in the child), so whatever the two
        processes issue must differ."""
        import random as _random
        from simcore.prng import derive
        kw = dict(domain=self.sc.get("domain", "users.example.org"),
                  name_qualifier=self.sc.get("nq", "https://idp.example.org/idp"))

        def serve(users):
            db = IdentDB({}, **kw)
            out = []
            for u in users:
                for spq in ev["spqs"]:
                    out.append(db.transient_nameid(u, spq, "").text)
                    out.append(db.persistent_nameid(u, spq, "").text)
            return out

        rfd, wfd = os.pipe()
        pid = os.fork()
        if pid == 0:
            code_ = 0
            try:
                os.close(rfd)
                ids = self.world.ids
                ids.rng = _random.Random(derive(self.sc["seed"], "ids-after-fork-%d" % i))
                ids.states, ids.repeat_next, ids.repeat_times = [], None, 1
                os.write(wfd, json.dumps(serve(ev["worker_users"])).encode())
            except BaseException as e:      # noqa
                try:
                    os.write(wfd, json.dumps({"error": repr(e)[:200]}).encode())
                except Exception:
                    code_ = 1
            finally:
                os._exit(code_)
        os.close(wfd)
        chunks = []
        while True:
            b = os.read(rfd, 65536)
            if not b:
                break
            chunks.append(b)
        os.close(rfd)
        os.waitpid(pid, 0)
        self.count("fault.fork")
        try:
            theirs = json.loads(b"".join(chunks).decode())
        except ValueError:
            theirs = {"error": "no answer from the worker"}
        if isinstance(theirs, dict):
            rec["exc"] = theirs.get("error")
            self.count("fork.worker-error")
            return
        mine = serve(ev["master_users"])
        both = sorted(set(mine) & set(theirs))
        if both or len(set(mine)) != len(mine) or len(set(theirs)) != len(theirs):
            self.viol(i, "forked-workers-issue-same-identifier",
                      "master and worker (different users) both issued %r" % (both[:2] or "duplicates within one process"))
            raise Violation()
        self.count("oracle.fork-identifiers-distinct")

    def op_construct(self, ev, i, rec):
        fmt = FORMATS[ev.get("fmt", "T")]
        pol = Policy({"default": {"nameid_format": fmt}}) if ev.get("via") != "nip" else None
        nip = NameIDPolicy(format=fmt, sp_name_qualifier=ev.get("nip_spq") or None) if ev.get("via") == "nip" else None
        try:
            n = self.db.construct_nameid(ev["u"], pol, ev.get("spq", "") or None, nip)
        except Exception as e:
            rec["exc"] = type(e).__name__
            return
        t = nid_tuple(n)
        if t[2] != fmt:
            self.viol(i, "construct-wrong-format", "asked %s got %r" % (fmt, t))
            raise Violation()
        # the name space the identifier belongs to: the SPNameQualifier of the requester's NameIDPolicy when it
        # has one (affiliations), else the requesting SP itself (documented in nim_args / the SAML core)
        eff_spq = (ev.get("nip_spq") if ev.get("via") == "nip" and ev.get("nip_spq") else ev.get("spq", "")) or ""
        if (t[1] or "") != eff_spq:
            self.viol(i, "construct-wrong-sp-qualifier", "policy=%r caller=%r got %r" % (
                ev.get("nip_spq") if ev.get("via") == "nip" else None, ev.get("spq"), t))
            raise Violation()
        if ev.get("via") == "nip" and ev.get("nip_spq") and ev.get("nip_spq") != ev.get("spq"):
            self.count("probe.construct.policy-qualifier-differs-from-caller")
        self.m_issue(ev["u"], t, i, rec)

    def op_store(self, ev, i, rec):
        """Caller-built NameID with hostile field contents (text is a unique marker)."""
        t = tuple(ev["t"])
        if t[4] in self.owner or t[4] in self.ever or not t[4]:
            return
        try:
            self.db.store(ev["u"], mk_nid(t))
        except Exception as e:
            rec["exc"] = type(e).__name__
            return
        self.m_issue(ev["u"], t, i, rec)
        self.count("probe.store.hostile")

    def op_find_local(self, ev, i, rec):
        t = self.handle(ev)
        if t is None:
            return
        try:
            got = self.db.find_local_id(mk_nid(t))
        except Exception as e:
            rec["exc"] = type(e).__name__
            got = None
        want = self.owner.get(t[4])
        rec["ret"] = got
        if got != want:
            self.viol(i, "resolves-to-wrong-user", "text=%s owner=%s got=%s" % (t[4], want, got))
            raise Violation()

    def op_find_nameid(self, ev, i, rec):
        u = ev["u"]
        kw = {}
        if ev.get("filter"):
            kw = dict(ev["filter"])
        try:
            got = self.db.find_nameid(u, **kw)
        except Exception as e:
            rec["exc"] = type(e).__name__
            return
        got_t = [nid_tuple(g) for g in got]
        want = [t for t in self.live.get(u, []) if all((t[FIELDS.index(k)] or None) == (v or None) for k, v in kw.items())]
        for t in want:
            if t not in got_t:
                self.viol(i, "find-nameid-misses-live", "user=%s filter=%r missing=%r got=%r" % (u, kw, t, got_t))
                raise Violation()
        for g in got_t:
            for k, v in kw.items():
                if (g[FIELDS.index(k)] or None) != (v or None):
                    # a lookup narrowed to one SP / format must not hand out an identifier made for another
                    self.viol(i, "find-nameid-ignores-filter", "user=%s filter=%r got=%r" % (u, kw, g))
                    raise Violation()
            if not g[4] or g not in self.live.get(u, []):
                # an identifier nobody issued (e.g. a NameID without any content decoded from a stale entry)
                if not g[4]:
                    self.viol(i, "find-nameid-returns-unissued", "user=%s got %r" % (u, g))
                    raise Violation()
            if g[4] and self.owner.get(g[4]) not in (None, u):
                self.viol(i, "find-nameid-foreign", "user=%s got id of %s: %r" % (u, self.owner.get(g[4]), g))
                raise Violation()
            if g[4] and g[4] not in self.owner:
                self.viol(i, "find-nameid-withdrawn", "user=%s got withdrawn id %r" % (u, g))
                raise Violation()

    def op_match(self, ev, i, rec):
        u, spq, nq = ev["u"], ev.get("spq", ""), ev.get("nq", "")
        try:
            n = self.db.match_local_id(u, spq, nq)
        except Exception as e:
            rec["exc"] = type(e).__name__
            return
        want = self.m_matches(u, spq, nq)
        if n is None:
            if want:
                self.viol(i, "match-misses-live", "user=%s spq=%r nq=%r live=%r" % (u, spq, nq, want))
                raise Violation()
            return
        t = nid_tuple(n)
        if t not in want:
            self.viol(i, "match-returns-nonlive", "user=%s spq=%r nq=%r got=%r live-matches=%r" % (u, spq, nq, t, want))
            raise Violation()

    def op_mapping(self, ev, i, rec):
        t = self.handle(ev)
        if t is None:
            return
        fmt = FORMATS[ev.get("fmt", "P")]
        nip = NameIDPolicy(format=fmt, sp_name_qualifier=ev.get("spq") or None,
                           allow_create=ev.get("allow_create", "true"))
        user = self.owner.get(t[4])
        existing = [x for x in self.live.get(user, []) if x[2] == fmt and (x[1] or None) == (ev.get("spq") or None)] if user else []
        try:
            n = self.db.handle_name_id_mapping_request(mk_nid(t), nip)
        except (Unknown, PolicyError) as e:
            rec["exc"] = type(e).__name__
            if isinstance(e, Unknown) and user is not None:
                self.viol(i, "mapping-unknown-for-live", "text=%s owner=%s" % (t[4], user))
                raise Violation()
            return
        except Exception as e:
            rec["exc"] = type(e).__name__
            return
        if user is None:
            self.viol(i, "mapping-for-withdrawn", "text=%s resolved, returned %r" % (t[4], nid_tuple(n)))
            raise Violation()
        r = nid_tuple(n)
        if existing:
            if r not in existing:
                self.viol(i, "mapping-ignores-existing", "existing=%r got=%r" % (existing, r))
                raise Violation()
        else:
            self.m_issue(user, r, i, rec)

    def op_manage(self, ev, i, rec):
        t = self.handle(ev)
        if t is None:
            return
        user = self.owner.get(t[4])
        cur = None
        if user:
            for x in self.live[user]:
                if x[4] == t[4]:
                    cur = x
        arg = mk_nid(cur if (cur and not ev.get("stale_fields")) else t)
        try:
            if ev.get("terminate"):
                n = self.db.handle_manage_name_id_request(arg, terminate=Terminate())
                newsp = ""
            else:
                n = self.db.handle_manage_name_id_request(arg, new_id=NewID(text=ev["new"]))
                newsp = ev["new"]
        except Exception as e:
            rec["exc"] = type(e).__name__
            return
        if user is None:
            self.viol(i, "manage-on-withdrawn-succeeded", "text=%s" % t[4])
            raise Violation()
        nt = nid_tuple(n)
        new_t = (nt[0], nt[1], nt[2], newsp, nt[4])
        self.live[user] = [new_t if x[4] == t[4] else x for x in self.live[user]]
        self.handles.append(new_t)
        self.count("probe.manage.ok")

    def op_remove_remote(self, ev, i, rec):
        t = self.handle(ev)
        if t is None:
            return
        user = self.owner.get(t[4])
        cur = t
        if user:
            for x in self.live[user]:
                if x[4] == t[4]:
                    cur = x
        try:
            self.db.remove_remote(mk_nid(cur))
        except Exception as e:
            rec["exc"] = type(e).__name__
            return
        self.m_withdraw(cur)
        self.count("probe.remove_remote.ok")
        if user is not None and not self.live.get(user):
            self.count("probe.last-id-of-user-removed")

    def op_remove_local(self, ev, i, rec):
        u = ev["u"]
        try:
            self.db.remove_local(u)
        except Exception as e:
            rec["exc"] = type(e).__name__
            self.count("probe.remove_local." + type(e).__name__)
            return
        for t in list(self.live.get(u, [])):
            self.m_withdraw(t)

    def op_reopen(self, ev, i, rec):
        if self.sc.get("backend") != "shelve":
            return
        self.db.close()
        self.db = IdentDB(self.open_db(), domain=self.db.domain, name_qualifier=self.db.name_qualifier)
        self.count("fault.reopen")

    def op_entropy_repeat(self, ev, i, rec):
        self.world.ids.repeat_next = ev.get("which", 0)
        self.world.ids.repeat_times = int(ev.get("times", 1))
        self.count("fault.entropy-repeat")

    def op_codec(self, ev, i, rec):
        """code/decode round trip and injectivity on hostile field tuples (pure, but it is the
        storage key the histories above rely on)."""
        ts = [tuple(x) for x in ev["ts"]]
        seen = {}
        for t in ts:
            try:
                c = code(mk_nid(t))
                back = nid_tuple(decode(c))
            except Exception as e:
                self.viol(i, "code-not-reversible", "fields=%r raised %s: %s" % (t, type(e).__name__, e))
                raise Violation()
            if back != t:
                self.viol(i, "code-not-reversible", "fields=%r code=%r decoded=%r" % (t, c, back))
                raise Violation()
            if c in seen and seen[c] != t:
                self.viol(i, "code-collision", "%r and %r -> %r" % (seen[c], t, c))
                raise Violation()
            seen[c] = t
            if " " in c:
                self.viol(i, "code-contains-separator", "fields=%r code=%r" % (t, c))
                raise Violation()

    # ------------------------------------------------------------- invariants after every step
    def check_invariants(self, i):
        for text, user in list(self.owner.items()):
            try:
                got = self.db.find_local_id(NameID(text=text))
            except Exception as e:
                got = "EXC:" + type(e).__name__
            if got != user:
                self.viol(i, "live-id-resolves-wrong", "text=%s owner=%s resolves-to=%s" % (text, user, got))
                return
        for text in self.ever:
            if text not in self.owner:
                try:
                    got = self.db.find_local_id(NameID(text=text))
                except Exception as e:
                    got = None
                if got is not None:
                    self.viol(i, "withdrawn-id-still-resolves", "text=%s resolves-to=%s" % (text, got))
                    return
        # persistent ids differ between users and between SP qualifiers (model-side bookkeeping)
        seen = {}
        for u, ts in self.live.items():
            for t in ts:
                if t[4] in seen and seen[t[4]] != u:
                    self.viol(i, "id-shared-between-users", "text=%s users=%s,%s" % (t[4], seen[t[4]], u))
                    return
                seen[t[4]] = u


# ======================================================================================= C19

class CacheSim(object):
    def __init__(self, sc):
        self.sc = sc
        self.world = World(sc["seed"], sc.get("tz"))
        self.violations = []
        self.history = []
        self.counters = {}
        self.tmp = tempfile.mkdtemp(prefix="verif-cache-")
        self.model = {}     # subject tuple -> {source: (expiry value, info)}

    def count(self, k, n=1):
        self.counters[k] = self.counters.get(k, 0) + n

    def viol(self, i, rule, detail):
        self.violations.append({"prop": "C19", "rule": rule, "detail": detail, "i": i})

    def now(self):
        return int(self.world.clock.now(None))

    def expired(self, ts):
        """The model: a source has expired iff its expiry time has passed (whole seconds; at
        equality it has not passed).  A zero/absent expiry is treated by get()/get_identity() as
        passed."""
        if not ts:
            return True
        import calendar
        import time as _t
        if isinstance(ts, (tuple, _t.struct_time)):
            ts = calendar.timegm(tuple(ts))
        elif isinstance(ts, str):
            from simcore import wire
            ts = wire.ts_epoch(ts)
        return self.now() > ts

    def run(self):
        try:
            with self.world:
                self.mem = Cache()
                self.fil = Cache(os.path.join(self.tmp, "cache"))
                self.pop_mem = Population(self.mem)
                self.pop_fil = Population(self.fil)
                for i, ev in enumerate(self.sc["events"]):
                    if "dt" in ev:
                        self.world.clock.advance(ev["dt"])
                    rec = {"i": i, "k": ev["k"]}
                    try:
                        getattr(self, "op_" + ev["k"])(ev, i, rec)
                    except Violation:
                        pass
                    self.history.append(rec)
                    if self.violations:
                        break
                try:
                    self.fil._db.close()
                except Exception:
                    pass
        finally:
            shutil.rmtree(self.tmp, ignore_errors=True)
        return self

    def both(self, fn):
        """Apply fn(cache, population) to the in-memory and the file-backed cache; -> two outcomes
        ('ok', value) / ('exc', class name)."""
        outs = []
        for c, p in ((self.mem, self.pop_mem), (self.fil, self.pop_fil)):
            try:
                outs.append(("ok", fn(c, p)))
            except Exception as e:
                outs.append(("exc", type(e).__name__))
        return outs

    def norm(self, v):
        if isinstance(v, dict):
            return {k: self.norm(x) for k, x in v.items()}
        if isinstance(v, (list, tuple)):
            return [self.norm(x) for x in v]
        if isinstance(v, NameID):
            return ("NameID",) + nid_tuple(v)
        return v

    def same_backends(self, i, outs, what):
        a, b = outs
        na, nb = self.norm(a), self.norm(b)
        if isinstance(na[1], list) and isinstance(nb[1], list) and na[0] == nb[0] == "ok" and what in ("entities", "subjects", "stale"):
            na = (na[0], sorted(map(repr, na[1])))
            nb = (nb[0], sorted(map(repr, nb[1])))
        if json.dumps(na, sort_keys=True, default=repr) != json.dumps(nb, sort_keys=True, default=repr):
            self.viol(i, "memory-and-file-differ", "%s: memory=%r file=%r" % (what, na, nb))
            raise Violation()
        return a

    def subj(self, ev):
        return tuple(self.sc["subjects"][ev["s"]])

    # ------------------------------------------------------------- operations
    def op_set(self, ev, i, rec):
        t = self.subj(ev)
        src = ev["src"]
        exp = self.now() + ev["off"]
        if ev.get("form") == "struct":
            import time as _t
            expv = _t.gmtime(exp)
        elif ev.get("form") == "str":
            import time as _t
            expv = _t.strftime("%Y-%m-%dT%H:%M:%SZ", _t.gmtime(exp))     # the timestamp as the assertion spells it
        elif ev.get("form") == "zero":
            expv = 0        # what the client stores for an assertion that carries no NotOnOrAfter at all
            self.count("probe.set.zero-expiry-with-data")
        else:
            expv = exp
        info = {"ava": copy.deepcopy(ev["ava"]), "marker": ev["marker"]}
        if ev.get("with_name_id"):
            info["name_id"] = mk_nid(t)
        if ev.get("reuse"):
            # the caller keeps one dict as its work area and refills it for every store (one per cache object)
            if not hasattr(self, "work"):
                self.work = {}

            def store(c, p):
                w = self.work.setdefault(id(c), {})
                w.clear()
                w.update(copy.deepcopy(info))
                return c.set(mk_nid(t), src, w, expv)
            outs = self.both(store)
            self.count("probe.set.reused-info-dict")
        else:
            outs = self.both(lambda c, p: c.set(mk_nid(t), src, copy.deepcopy(info), expv))
        out = self.same_backends(i, outs, "set")
        if out[0] == "ok":
            self.model.setdefault(t, {})[src] = (expv, {"ava": copy.deepcopy(ev["ava"]), "marker": ev["marker"]})
            self.count("probe.set.off%+d" % ev["off"] if abs(ev["off"]) <= 1 else "probe.set.far")

    def op_offset_probe(self, ev, i, rec):
        """A session whose expiry the caller stores as the assertion spelt it - with a numeric zone designator - for a
        subject nobody else uses, queried at once: the instant is what counts, not the wall-clock digits.  (This code
        base refuses such a spelling at query time, which is as safe; what it must never do is hand the data out
        after the instant has passed.)  The subject is removed again afterwards."""
        import time as _t
        t = ("https://idp.example.org/idp", "https://sp.example.org/sp", NAMEID_FORMAT_PERSISTENT, "", "offset-probe-%d" % i)
        src = ev["src"]
        true_exp = self.now() + ev["off"]
        hh = ev["zone_h"]
        wall = _t.strftime("%Y-%m-%dT%H:%M:%S", _t.gmtime(true_exp + hh * 3600))
        expv = "%s%s%02d:00" % (wall, "+" if hh >= 0 else "-", abs(hh))
        info = {"ava": {"mail": ["probe"]}, "marker": "probe"}

        def run(c, p):
            c.set(mk_nid(t), src, dict(info), expv)
            try:
                got = c.get(mk_nid(t), src, True)
                res = ("ok", bool(got and got.get("marker") == "probe"))
            except Exception as e:
                res = ("exc", type(e).__name__)
            try:
                act = ("ok", bool(c.active(mk_nid(t), src)))
            except Exception as e:
                act = ("exc", type(e).__name__)
            c.delete(mk_nid(t))
            return [list(res), list(act)]
        out = self.same_backends(i, self.both(run), "offset_probe")
        self.count("probe.offset-expiry")
        if out[0] != "ok":
            return
        res, act = out[1]
        expired = self.now() > true_exp
        if expired and ((res[0] == "ok" and res[1]) or (act[0] == "ok" and act[1])):
            self.viol(i, "expired-data-returned", "expiry %s (the instant passed %d s ago): get=%r active=%r" % (
                expv, self.now() - true_exp, res, act))
            raise Violation()

    def op_add_person(self, ev, i, rec):
        """Population.add_information_about_person: what the client does on every accepted login."""
        t = self.subj(ev)
        src = ev["src"]
        exp = 0 if ev.get("form") == "zero" else self.now() + ev["off"]
        si = {"ava": copy.deepcopy(ev["ava"]), "name_id": mk_nid(t), "came_from": "/x", "issuer": src,
              "not_on_or_after": exp, "authn_info": [], "session_index": "s1", "marker": ev["marker"]}
        outs = self.both(lambda c, p: nid_tuple(p.add_information_about_person(copy.deepcopy(si))))
        out = self.same_backends(i, outs, "add_person")
        if out[0] == "ok":
            self.model.setdefault(t, {})[src] = (exp, {"ava": copy.deepcopy(ev["ava"]), "marker": ev["marker"]})

    def op_get(self, ev, i, rec):
        t = self.subj(ev)
        src = ev["src"]
        chk = ev.get("check", True)
        fn = (lambda c, p: p.get_info_from(mk_nid(t), src, chk)) if ev.get("via_pop") else \
            (lambda c, p: c.get(mk_nid(t), src, chk))
        out = self.same_backends(i, self.both(fn), "get")
        m = self.model.get(t, {}).get(src)
        rec["out"] = out[0] if out[0] == "exc" else "ok"
        if m is None:
            if out[0] == "ok" and out[1]:
                self.viol(i, "data-for-unknown-subject-or-source", "subject=%r source=%s got=%r" % (t, src, self.norm(out[1])))
                raise Violation()
            return
        exp, info = m
        if chk and self.expired(exp):
            self.count("oracle.get.expired")
            if out[0] == "ok" and out[1]:
                self.viol(i, "expired-data-returned", "now=%d expiry=%r got marker=%r" % (
                    self.now(), exp if isinstance(exp, int) else tuple(exp), (out[1] or {}).get("marker")))
                raise Violation()
            # (how an expired source is reported - ToOld today - is not prescribed: any error or an
            # empty answer will do, data will not)
            return
        self.count("oracle.get.live")
        if not info.get("marker"):     # reset source
            if out[0] == "ok" and out[1]:
                self.viol(i, "reset-source-returns-data", repr(self.norm(out[1])))
                raise Violation()
            return
        if out[0] != "ok" or not out[1]:
            self.viol(i, "live-data-not-returned", "now=%d expiry=%r out=%r" % (self.now(), exp, self.norm(out)))
            raise Violation()
        if out[1].get("marker") != info["marker"] or out[1].get("ava") != info["ava"]:
            self.viol(i, "wrong-data-returned", "want marker=%s got=%r" % (info["marker"], self.norm(out[1])))
            raise Violation()

    def op_identity(self, ev, i, rec):
        t = self.subj(ev)
        ents = ev.get("entities")
        chk = ev.get("check", True)
        fn = (lambda c, p: p.get_identity(mk_nid(t), ents, chk)) if ev.get("via_pop") else \
            (lambda c, p: c.get_identity(mk_nid(t), ents, chk))
        outs = self.both(fn)
        # attribute value order is a set union: compare as sorted
        def canon(o):
            if o[0] != "ok":
                return o
            ava, old = o[1]
            return ("ok", ({k: sorted(v) for k, v in ava.items()}, sorted(old)))
        outs = [canon(o) for o in outs]
        out = self.same_backends(i, outs, "get_identity")
        srcs = self.model.get(t, {})
        wanted = list(srcs.keys()) if not ents else list(ents)
        want_ava = {}
        want_old = []
        unknown = [s for s in wanted if s not in srcs]
        for s in wanted:
            if s not in srcs:
                continue
            exp, info = srcs[s]
            if (chk and self.expired(exp)) or not info.get("marker"):
                want_old.append(s)
                continue
            for k, vals in info["ava"].items():
                want_ava.setdefault(k, set()).update(vals)
        want_ava = {k: sorted(v) for k, v in want_ava.items()}
        if out[0] == "exc":
            if unknown or (t not in self.model):
                return            # asking about a source that was never stored: an error is fine
            self.viol(i, "identity-query-failed", "exc=%s sources=%r" % (out[1], wanted))
            raise Violation()
        ava, old = out[1]
        self.count("oracle.identity.checked")
        if want_old:
            self.count("oracle.identity.with-stale")
        if ava != want_ava:
            self.viol(i, "identity-not-union-of-live-sources", "now=%d got=%r want=%r sources=%r" % (
                self.now(), ava, want_ava, {s: (e if isinstance(e, int) else tuple(e), bool(inf.get("marker"))) for s, (e, inf) in srcs.items()}))
            raise Violation()
        if not unknown and sorted(old) != sorted(want_old):
            self.viol(i, "stale-sources-misreported", "got=%r want=%r" % (sorted(old), sorted(want_old)))
            raise Violation()

    def op_reset(self, ev, i, rec):
        t = self.subj(ev)
        out = self.same_backends(i, self.both(lambda c, p: c.reset(mk_nid(t), ev["src"])), "reset")
        if out[0] == "ok":
            self.model.setdefault(t, {})[ev["src"]] = (0, {})

    def op_delete(self, ev, i, rec):
        t = self.subj(ev)
        fn = (lambda c, p: p.remove_person(mk_nid(t))) if ev.get("via_pop") else (lambda c, p: c.delete(mk_nid(t)))
        out = self.same_backends(i, self.both(fn), "delete")
        if out[0] == "ok":
            if t not in self.model:
                self.viol(i, "delete-unknown-succeeded", repr(t))
                raise Violation()
            del self.model[t]
            self.count("probe.delete")
        elif t in self.model:
            self.viol(i, "delete-failed", "exc=%s" % out[1])
            raise Violation()

    def op_active(self, ev, i, rec):
        t = self.subj(ev)
        out = self.same_backends(i, self.both(lambda c, p: c.active(mk_nid(t), ev["src"])), "active")
        m = self.model.get(t, {}).get(ev["src"])
        if out[0] != "ok":
            self.viol(i, "active-raised", out[1])
            raise Violation()
        if m is None or not m[1].get("marker"):
            want = False
        elif not m[0]:
            return          # expiry 0 with data: "no expiry" for active(), unspecified
        else:
            want = not self.expired(m[0])
        if bool(out[1]) != want:
            self.viol(i, "active-wrong", "now=%d expiry=%r got=%r want=%r" % (self.now(), m and m[0], out[1], want))
            raise Violation()

    def op_entities(self, ev, i, rec):
        t = self.subj(ev)
        fn = {"entities": lambda c, p: c.entities(mk_nid(t)), "issuers": lambda c, p: p.issuers_of_info(mk_nid(t)),
              "sources": lambda c, p: p.sources(mk_nid(t)), "receivers": lambda c, p: c.receivers(mk_nid(t))}[ev.get("via", "entities")]
        out = self.same_backends(i, self.both(fn), "entities")
        if t not in self.model:
            if out[0] == "ok" and out[1]:
                self.viol(i, "entities-for-unknown-subject", repr(out[1]))
                raise Violation()
            return
        if out[0] != "ok" or sorted(out[1]) != sorted(self.model[t].keys()):
            self.viol(i, "entities-wrong", "got=%r want=%r" % (out, sorted(self.model[t].keys())))
            raise Violation()

    def op_stale(self, ev, i, rec):
        t = self.subj(ev)
        out = self.same_backends(i, self.both(lambda c, p: p.stale_sources_for_person(mk_nid(t), ev.get("sources"))), "stale")
        if t not in self.model and not ev.get("sources"):
            return
        if out[0] != "ok":
            return
        srcs = self.model.get(t, {})
        wanted = ev.get("sources") or list(srcs.keys())
        for s in wanted:
            m = srcs.get(s)
            if m is None or not m[1].get("marker"):
                want_stale = True
            elif not m[0]:
                continue
            else:
                want_stale = self.expired(m[0])
            if (s in out[1]) != want_stale:
                self.viol(i, "stale-sources-wrong", "source=%s got=%r want_stale=%r now=%d expiry=%r" % (
                    s, out[1], want_stale, self.now(), m and m[0]))
                raise Violation()

    def op_subjects(self, ev, i, rec):
        fn = (lambda c, p: [nid_tuple(x) for x in p.subjects()]) if ev.get("via_pop") else \
            (lambda c, p: [nid_tuple(x) for x in c.subjects()])
        out = self.same_backends(i, self.both(fn), "subjects")
        if out[0] != "ok" or sorted(out[1]) != sorted(self.model.keys()):
            self.viol(i, "subjects-wrong", "got=%r want=%r" % (out, sorted(self.model.keys())))
            raise Violation()

    def op_entityid(self, ev, i, rec):
        t = self.subj(ev)
        out = self.same_backends(i, self.both(lambda c, p: self.norm(p.get_entityid(mk_nid(t), ev["src"], ev.get("check", True)))), "get_entityid")

    def op_jump(self, ev, i, rec):
        self.world.clock.jump(None, ev["delta"])
        self.count("fault.clock-jump")

    def op_reopen(self, ev, i, rec):
        self.fil._db.close()
        self.fil = Cache(os.path.join(self.tmp, "cache"))
        self.pop_fil = Population(self.fil)
        self.count("fault.reopen")


# ======================================================================================= generators

def gen_c18(seed, tier):
    r = mkrng(seed, "workload")
    rf = mkrng(seed, "faults")
    backend = "shelve" if seed % 5 == 0 else "dict"
    faulty = seed % 3 == 1
    empty_spq = seed % 4 == 2          # the signature's default sp_name_qualifier="" as a separate run class
    users = ["alice", "bob", "carol"]
    spqs = ["", "https://sp1.example/sp", "https://sp2.example/sp"] if empty_spq else \
        ["https://sp1.example/sp", "https://sp2.example/sp", "https://sp3.example/sp"]
    nqs = ["", "https://idp.example.org/idp"]
    n = r.pick([4, 6, 8, 12]) if tier == "quick" else r.pick([6, 12, 40, 200])
    evs = []
    mk = 0
    for _ in range(n):
        k = r.weighted([("persistent", 5), ("transient", 3), ("construct", 2), ("store", 2), ("find_local", 2), ("login", 2),
                        ("find_nameid", 2), ("match", 2), ("mapping", 2), ("manage", 2), ("remove_remote", 4),
                        ("remove_local", 1), ("reopen", 1 if backend == "shelve" else 0), ("codec", 1),
                        ("entropy_repeat", 3 if faulty else 0)])
        u = r.pick(users)
        if k in ("persistent", "transient", "match"):
            evs.append({"k": k, "u": u, "spq": r.pick(spqs), "nq": r.pick(nqs)})
        elif k == "login":
            evs.append({"k": k, "u": u, "spq": r.pick([x for x in spqs if x]), "fmt": r.pick(["P", "P", "T"]),
                        "nip": r.pick([None, None, "with-spq", "no-spq"])})
        elif k == "construct":
            evs.append({"k": k, "u": u, "fmt": r.pick(["T", "P", "E"]), "spq": r.pick(spqs),
                        "via": r.pick(["policy", "nip"]), "nip_spq": r.pick(spqs)})
        elif k == "store":
            mk += 1
            t = [r.pick(nqs + HOSTILE_FIELD), r.pick(spqs + HOSTILE_FIELD),
                 r.pick(list(FORMATS.values()) + ["urn:x:" + r.pick(HOSTILE_FIELD)]),
                 r.pick(["", "", "spid", r.pick(HOSTILE_FIELD)]),
                 "cb%04d-%s" % (mk, r.pick(["x"] + HOSTILE_FIELD).replace(" ", "_"))]
            evs.append({"k": k, "u": u, "t": t})
            if r.chance(0.2):
                # ... and, for the SAME user, an identifier whose text is a proper prefix of it (same other fields)
                t3 = list(t)
                t3[4] = t[4][:-r.randrange(1, 4)]
                evs.append({"k": k, "u": u, "t": t3})
            if r.chance(0.25):
                # ... and another user's identifier whose text differs from it only by surrounding white space
                # (SP-provided / migrated identifiers are arbitrary strings)
                t2 = list(t)
                t2[4] = r.pick([" %s", "%s ", " %s ", "\t%s", "%s\n"]) % t[4]
                evs.append({"k": k, "u": r.pick([x for x in users if x != u] or users), "t": t2})
        elif k in ("find_local", "remove_remote"):
            evs.append({"k": k, "h": r.randrange(1000)})
        elif k == "find_nameid":
            flt = None
            if r.chance(0.5):
                flt = {"sp_name_qualifier": r.pick(spqs) or None}
                if r.chance(0.7):
                    flt["format"] = r.pick(list(FORMATS.values()))
            evs.append({"k": k, "u": u, "filter": flt})
        elif k == "mapping":
            evs.append({"k": k, "h": r.randrange(1000), "fmt": r.pick(["P", "T", "E"]), "spq": r.pick(spqs),
                        "allow_create": r.pick(["true", "true", "false"])})
        elif k == "manage":
            e = {"k": k, "h": r.randrange(1000), "stale_fields": r.chance(0.2)}
            if r.chance(0.3):
                e["terminate"] = True
            else:
                mk += 1
                e["new"] = "spid-%d%s" % (mk, r.pick(["", "", ",", " ", "="]))
            evs.append(e)
        elif k == "remove_local":
            evs.append({"k": k, "u": u})
        elif k == "reopen":
            evs.append({"k": k})
        elif k == "entropy_repeat":
            # one repeated draw, or a pool that stays stuck for several consecutive draws
            evs.append({"k": k, "which": rf.randrange(64), "times": rf.pick([1, 1, 2, 3, 5, 8])})
        elif k == "codec":
            ts = []
            for _ in range(r.randrange(2, 12)):
                ts.append(["".join(r.pick(HOSTILE_FIELD + ["a", "b", ""]) for _ in range(r.randrange(0, 3)))
                           for _ in range(5)])
            evs.append({"k": k, "ts": ts})
    if mkrng(seed, "layout2").chance(0.1):
        # deployment knob: two IdP objects in one process
        evs.insert(r.randrange(len(evs) + 1), {"k": "two_idps", "u": r.pick(users), "spq": r.pick([x for x in spqs if x])})
    if backend == "dict" and mkrng(seed, "layout").chance(0.12):
        # deployment knob: a pre-forking server - at some point a worker process is forked off
        evs.insert(r.randrange(len(evs) + 1), {"k": "fork", "master_users": ["dave"], "worker_users": ["erin", "frank"],
                                               "spqs": [x for x in spqs if x][:2]})
    return {"engine": "storesim", "prop": "C18", "seed": seed, "tier": tier, "backend": backend,
            "knobs": {"class": "entropy-faults" if faulty else "clean", "backend": backend, "empty_spq": empty_spq},
            "events": evs}


def subject_variants(r):
    base = ["https://idp.example.org/idp", "https://sp.example.org/sp", NAMEID_FORMAT_PERSISTENT, "", "abc123"]
    texts = ["abc124", "abc123 ", "abc123,4=x", "ABC123", "abc123%20"]
    kind = r.pick(["persistent", "persistent", "mail", "unspecified"])
    if kind == "mail":
        # identifiers in e-mail format: the local part is case sensitive, two spellings are two subjects
        base[2], base[4] = NAMEID_FORMAT_EMAILADDRESS, "Kim.Lee@example.org"
        texts = ["kim.lee@example.org", "Kim.Lee@Example.org", "KIM.LEE@EXAMPLE.ORG", "Kim.Lee@example.org ", "Kim.Lee+x@example.org"]
    elif kind == "unspecified":
        base[2], base[4] = "urn:oasis:names:tc:SAML:1.1:nameid-format:unspecified", "User-17"
        texts = ["user-17", "User-17 ", "User-17,4=x", "USER-17", "User-18"]
    pool = [list(base)]
    alts = {0: ["", "https://idp2.example.org/idp", "https://idp.example.org/idp "],
            1: ["", "https://sp.example.org/sp2", "https://sp.example.org/sp,1"],
            2: [f_ for f_ in [NAMEID_FORMAT_TRANSIENT, "", NAMEID_FORMAT_EMAILADDRESS, NAMEID_FORMAT_PERSISTENT] if f_ != base[2]][:3],
            3: ["x", "1=y", " "],
            4: texts}
    for idx, vals in alts.items():
        for v in vals:
            t = list(base)
            t[idx] = v
            pool.append(t)
    return pool


def gen_c19(seed, tier):
    r = mkrng(seed, "workload")
    pool = subject_variants(r)
    subjects = [pool[0]] + r.sample(pool[1:], 2)
    if r.chance(0.5):
        # make sure a subject whose text is a near twin of the first one's takes part
        subjects[1] = r.pick([t for t in pool[1:] if t[4] != pool[0][4] and t[:4] == pool[0][:4]])
        if subjects[2] == subjects[1]:
            subjects[2] = r.pick([t for t in pool[1:] if t != subjects[1]])
    sources = ["https://idp-a.example/idp", "https://idp-b.example/idp", "https://aa.example/aa"]
    attrs = ["mail", "givenName", "eduPersonAffiliation"]
    n = r.pick([4, 6, 10, 14]) if tier == "quick" else r.pick([8, 14, 40, 200])
    # swarm: every run concentrates on few subjects / sources / attribute names and on a random
    # subset of the operation kinds, so that multi-step interactions are actually reached
    focus_subj = r.pick([1.0, 0.85, 0.6, 0.34])
    use_sources = sources[: r.pick([1, 2, 2, 3])]
    use_attrs = attrs[: r.pick([1, 1, 2, 3])]
    optional = ["add_person", "reset", "delete", "active", "entities", "stale", "subjects", "entityid", "jump", "reopen",
                "offset_probe"]
    enabled = set(r.subset(optional, r.pick([0.3, 0.5, 0.8]))) | {"set", "get", "identity"}
    weights = [("set", 6), ("add_person", 2), ("get", 4), ("identity", 5), ("reset", 2), ("delete", 2),
               ("active", 2), ("entities", 2), ("stale", 2), ("subjects", 1), ("entityid", 1),
               ("jump", 3), ("reopen", 2), ("offset_probe", 1)]
    weights = [(k, w) for k, w in weights if k in enabled]
    evs = []
    mk = 0
    last_set = {}
    reuse_info = r.chance(0.25)       # the caller refills one dict object for every store instead of building a new one
    for _ in range(n):
        k = r.weighted(weights)
        s = 0 if r.chance(focus_subj) else r.randrange(3)
        src = r.pick(use_sources)
        e = {"k": k, "dt": r.pick([0, 0, 0.5, 1, 1, 2, 60])}
        if k in ("set", "add_person"):
            mk += 1
            ava = {}
            for a in r.sample(use_attrs, r.randrange(0 if len(use_attrs) > 1 else 1, len(use_attrs) + 1)):
                ava[a] = ["v%d-%d" % (mk, j) for j in range(r.randrange(1, 3))] + (["shared"] if r.chance(0.3) else [])
            e.update({"s": s, "src": src, "off": r.pick([-3600, -1, 0, 1, 3600, -2, 2, 5, 3600, 600]), "ava": ava,
                      "marker": "m%d" % mk, "form": r.pick(["int", "int", "int", "struct", "struct", "zero", "str", "str"]),
                      "with_name_id": r.chance(0.5)})
            prev = last_set.get((s, src))
            if prev is not None and r.chance(0.3):
                # the same statement again with another expiry (a renewed / shortened session)
                e["ava"], e["marker"], e["with_name_id"] = prev["ava"], prev["marker"], prev["with_name_id"]
            last_set[(s, src)] = e
            if reuse_info and k == "set":
                e["reuse"] = True
            if k == "add_person" and e["form"] == "struct":
                e["form"] = "int"
        elif k in ("get", "active", "reset", "entityid"):
            e.update({"s": s, "src": src, "check": r.chance(0.8), "via_pop": r.chance(0.3)})
        elif k == "identity":
            ents = None
            if r.chance(0.3):
                ents = r.sample(sources, r.randrange(1, 3))
            e.update({"s": s, "entities": ents, "check": r.chance(0.85), "via_pop": r.chance(0.3)})
        elif k == "delete":
            e.update({"s": s, "via_pop": r.chance(0.3)})
        elif k == "entities":
            e.update({"s": s, "via": r.pick(["entities", "issuers", "sources", "receivers"])})
        elif k == "offset_probe":
            e.update({"src": src, "off": r.pick([-7200, -3600, -60, -1, 1, 60, 3600]), "zone_h": r.pick([2, 5, 1, 14, -5, -12])})
        elif k == "stale":
            # (no argument, an explicit empty list - "everything" as well -, or the sources the caller cares about)
            e.update({"s": s, "sources": r.pick([None, None, [], [], r.sample(sources, 1), r.sample(sources, 2)])})
        elif k == "subjects":
            e.update({"via_pop": r.chance(0.5)})
        elif k == "jump":
            e.update({"delta": r.pick([-3600, -2, -1, 1, 2, 3, 3600, 7200])})
        evs.append(e)
    # environment: the local time zone of the SP process (expiry is defined in UTC; nothing may depend on it)
    tz = mkrng(seed, "faults").pick([None, None, None, "CET-1", "EST5", "IST-5:30", "NZST-12", "UTC0"])
    return {"engine": "storesim", "prop": "C19", "seed": seed, "tier": tier, "subjects": subjects, "tz": tz,
            "knobs": {"n": n, "focus_subject": focus_subj, "sources": len(use_sources), "attrs": len(use_attrs),
                      "enabled": sorted(enabled)}, "events": evs}


def generate(seed, prop, tier):
    return gen_c18(seed, tier) if prop == "C18" else gen_c19(seed, tier)


def simplify(sc):
    if sc.get("tz"):
        c = json.loads(json.dumps(sc))
        c["tz"] = None
        yield c


def execute(sc):
    sim = (IdentSim(sc) if sc["prop"] == "C18" else CacheSim(sc)).run()
    sig_items = [(h["k"], h.get("exc"), h.get("out")) for h in sim.history]
    signature = hashlib.sha1(json.dumps(sig_items, default=str).encode()).hexdigest()[:16]
    digest = hashlib.sha256(json.dumps([sim.history, sim.violations], sort_keys=True, default=str).encode()).hexdigest()
    counters = dict(sim.counters)
    counters["fault.entropy-repeat.fired"] = sim.world.ids.repeats_fired
    counters["ops"] = len(sim.history)
    if sc.get("tz"):
        counters["fault.local-time-zone"] = 1
    return {"violations": sim.violations, "signature": signature, "digest": digest, "counters": counters,
            "sim_seconds": sim.world.clock.t - sim.world.clock.start + sum(abs(v) for v in sim.world.clock.offsets.values()),
            "nontrivial": len(sim.history) >= 3, "steps": len(sim.history),
            "sample": {"seed": sc["seed"], "knobs": sc.get("knobs"), "ops": [
                {k: v for k, v in e.items() if k not in ("ts", "ava")} for e in sc["events"][:12]],
                "outcomes": [(h["k"], h.get("exc") or h.get("ret") or h.get("out")) for h in sim.history[:12]]}}


_Q = {"det_sample": 8, "min_budget": 30, "run_timeout": 120, "wall": 50}
_T = {"det_sample": 32, "min_budget": 60, "run_timeout": 300, "wall": 900}
PLAN = {"C18": {"quick": dict(_Q, runs=20000), "thorough": dict(_T, runs=600000)},
        "C19": {"quick": dict(_Q, runs=6000), "thorough": dict(_T, runs=200000)}}
COMPONENTS = {"real": ["saml2_tophat.ident.IdentDB, code, decode", "saml2_tophat.cache.Cache",
                       "saml2_tophat.population.Population", "saml2_tophat.time_util", "shelve on dbm.dumb (real files in a per-run temp dir)"],
              "stub": ["wall clock -> SimClock", "process time zone -> per-run TZ (C19)", "random.SystemRandom -> seeded id stream with entropy-repeat fault",
                       "callers (Server / Saml2Client) -> generated operation sequences"]}
RULE_TEXT = {"*": "one evaluation = one generated operation history (length 4..200) applied to the real store and to the "
                  "reference model, invariants after every step; non-trivial = at least 3 operations executed; "
                  "distinct = distinct sequence of (operation kind, outcome class)"}
ASSUMPTIONS = {"*": ["single caller thread (the properties quantify over histories, not schedules)",
                     "file-backed variants use dbm.dumb; crash-consistency of the dbm file format is not examined (clean reopen only)",
                     "caller-built NameIDs never reuse a text that is live, and never use a text equal to a local user id "
                     "(IdentDB keeps both directions in one key space)"]}
