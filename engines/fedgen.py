"""Scenario generators for engine F - one bias per property (swarm: sizes, workload mix,
enabled fault kinds and knobs vary per run).  Generation is open-loop and a pure function of
the seed: the generator is the discrete-event scheduler (it places every event on the
simulated time line), execution never feeds back into it.
"""
import math

from simcore import seams, wire
from simcore.prng import rng as mkrng, derive
from simcore.toolfaults import modes_for
from engines import fed

EPOCH = seams.SIM_EPOCH
SIGALGS = ["http://www.w3.org/2000/09/xmldsig#rsa-sha1",
           "http://www.w3.org/2001/04/xmldsig-more#rsa-sha224",
           "http://www.w3.org/2001/04/xmldsig-more#rsa-sha256",
           "http://www.w3.org/2001/04/xmldsig-more#rsa-sha384",
           "http://www.w3.org/2001/04/xmldsig-more#rsa-sha512"]
DIGALGS = ["http://www.w3.org/2000/09/xmldsig#sha1",
           "http://www.w3.org/2001/04/xmldsig-more#sha224",
           "http://www.w3.org/2001/04/xmlenc#sha256",
           "http://www.w3.org/2001/04/xmldsig-more#sha384",
           "http://www.w3.org/2001/04/xmlenc#sha512"]
_ATTR_CANDIDATES = ["givenName", "sn", "mail", "displayName", "title", "uid", "cn", "o", "ou",
                    "telephoneNumber", "street", "l", "employeeNumber", "initials", "eduPersonNickname",
                    "departmentNumber", "eduPersonAffiliation", "postalCode"]


def _safe_names():
    # names for which the shipped URI attribute map is the identity (to -> fro gives the name back),
    # so the harness needs no model of the converter; read from the repository's data table
    from saml2_tophat.attributemaps import saml_uri
    to, fro = saml_uri.MAP["to"], saml_uri.MAP["fro"]
    return [n for n in _ATTR_CANDIDATES if n in to and fro.get(to[n]) == n]


ATTR_NAMES = _safe_names()


def _ec_names():
    # attributes the entity-category profiles talk about, as far as the shipped URI map carries them unchanged
    from saml2_tophat.attributemaps import saml_uri
    to, fro = saml_uri.MAP["to"], saml_uri.MAP["fro"]
    return [n for n in fed.EC_ATTR_POOL if n in to and fro.get(to[n]) == n]


EC_NAMES = _ec_names()


def _aliases():
    from saml2_tophat.attributemaps import saml_uri
    to = saml_uri.MAP["to"]
    byw = {}
    for k, w in to.items():
        byw.setdefault(w, []).append(k)
    return {n: [k for k in byw.get(to[n], []) if k != n] for n in ATTR_NAMES}


ALIASES = _aliases()
NAMEID_FORMATS = ["urn:oasis:names:tc:SAML:2.0:nameid-format:transient",
                  "urn:oasis:names:tc:SAML:2.0:nameid-format:persistent",
                  "urn:oasis:names:tc:SAML:1.1:nameid-format:emailAddress"]
AUTHN_CLASSES = [fed.AUTHN_PASSWORD, fed.AUTHN_PPT, fed.AUTHN_X509]
SLACKS = [None, 0, 1, 3, 60, 3600, 1000000]

HOSTILE = ["<", ">", "&", "\"", "'", "]]>", "<!--", "-->", "&amp;lt;", "&lt;", "&#x41;",
           "</saml:AttributeValue><saml:AttributeValue>", "</ns0:AttributeValue>",
           "<ns0:Attribute Name=\"x\"/>", "<?xml version=\"1.0\"?>", "<![CDATA[x]]>",
           "åäö", "中文", "\U0001F600", "é", "‮", " ",
           "\t", "\n", "  ", " lead", "trail ", "%00", "%3C", "+", "=", "xmlns:x=\"y\"", "{", "}",
           "\\", "/", ":", ";"]


class G(object):
    def __init__(self, seed, prop, tier):
        self.seed = seed
        self.prop = prop
        self.tier = tier
        self.r = mkrng(seed, "workload")
        self.rl = mkrng(seed, "layout")
        self.rf = mkrng(seed, "faults")
        self.rs = mkrng(seed, "schedule")
        self.nodes = []
        self.skew = {}
        self.events = []
        self.t = 10.25
        self.fid = 0
        self.nsub = 0
        self.knobs = {}

    def sub(self):
        self.nsub += 1
        return derive(self.seed, "ev", self.nsub)

    def ev(self, k, **kw):
        e = {"t": self.t, "k": k}
        e.update(kw)
        self.events.append(e)
        return e

    def tick(self, dt=1.0):
        self.t += dt

    def new_flow(self):
        self.fid += 1
        return self.fid

    def marker(self, tag="mk"):
        return "%s%016x" % (tag, self.r.getrandbits(64))

    def scenario(self):
        # environment: local time zone of the process (all SAML time is UTC; nothing may depend on it)
        tz = mkrng(self.seed, "tz").pick([None, None, None, None, "CET-1", "EST5", "IST-5:30", "NZST-12"])
        # environment: the release the installed xmlsec1 reports with --version (no behaviour of the tool depends on it)
        tv = mkrng(self.seed, "toolversion").pick([None, None, None, "1.2.37", "1.3.4", "1.3.0", "1.4.1"])
        return {"engine": "fedsim", "prop": self.prop, "seed": self.seed, "tier": self.tier, "tz": tz, "tool_version": tv,
                "knobs": self.knobs, "nodes": self.nodes, "skew": self.skew, "events": self.events}

    # ---------------------------------------------------------------- layout
    def add_idp(self, i, **kw):
        spec = {"kind": "idp", "name": "idp%d" % i, "key": i}
        spec.update(kw)
        if self.rl.chance(0.2):
            spec["str_bools"] = True
        if self.rl.chance(0.2):
            spec["bool_backend"] = True
        # deployment knob (own stream, so that the other layouts stay what they were): the IdP rolls its signing
        # certificate for every signed answer (generate_cert_info + tmp_cert_file/tmp_key_file, the PEFIM set-up);
        # create_authn_response() then builds the answer on its locked branch.  The roller is the documented
        # cert_handler_extra_class seam and hands out the configured pair again, so trust is what it was.
        if "rolling_cert" not in spec and mkrng(self.seed, "rolling", spec["name"]).chance(0.3):
            spec["rolling_cert"] = True
        self.nodes.append(spec)
        return spec

    def add_sp(self, i, tenant="a", **kw):
        spec = {"kind": "sp", "name": "sp%d" % i, "key": 3 + i, "enc_keys": [6 + 2 * i], "tenant": tenant,
                "wrs": False, "was": False, "waors": False}
        spec.update(kw)
        if self.prop != "C02":
            # swarm: now and then an option is not configured at all, the documented default decides
            for k_ in ("wrs", "was", "waors", "allow_unsolicited"):
                if self.rl.chance(0.15):
                    spec[k_] = None
        if self.rl.chance(0.2):
            spec["plain_config"] = True     # SP section inside a plain all-in-one Config object
        if self.rl.chance(0.25):
            spec["str_bools"] = True        # "true" / "false" strings instead of booleans in the service section
        if self.rl.chance(0.2):
            spec["bool_backend"] = True     # crypto back end whose validate_signature() returns False instead of raising
        self.nodes.append(spec)
        return spec

    def draw_skews(self, choices=(0, 0, 1, -1, 3, -3, 30, -30, 300, -300)):
        for n in self.nodes:
            self.skew[n["name"]] = float(self.rl.pick(list(choices)))

    # ---------------------------------------------------------------- content
    def value(self, hostile=0.5, maxlen=40):
        r = self.r
        parts = [self.marker()]
        n = r.randrange(0, 4)
        for _ in range(n):
            if r.chance(hostile):
                parts.append(r.pick(HOSTILE))
            else:
                parts.append("".join(r.pick("abcXYZ019 -_.") for _ in range(r.randrange(1, 8))))
        r.shuffle(parts)
        s = "".join(parts)
        if r.chance(0.03):
            s = s + "x" * 10000
        return s

    def identity(self, hostile=0.5, empty_ok=True):
        r = self.r
        n = r.weighted([(0, 1 if empty_ok else 0), (1, 3), (2, 3), (3, 2), (6, 1)])
        names = r.sample(ATTR_NAMES, n)
        if names and r.chance(0.2):
            # two asserted names that share one wire name: an alias from the same map, or a case variant
            base = r.pick(names)
            alias = r.pick(ALIASES.get(base, []) + [base.upper(), base.lower(), base.capitalize()])
            if alias not in names:
                names.append(alias)
        if getattr(self, "custom_map", False) and r.chance(0.6):
            names.append("staffId")     # the home-grown attribute of the federation's own attribute map
        ident = {}
        for nm in names:
            k = r.weighted([(1, 5), (2, 2), (4, 1)])
            vals = [self.value(hostile) for _ in range(k)]
            if r.chance(0.05):
                vals.append("")
            ident[nm] = vals
        return ident

    def big_identity(self):
        """A long, many-valued identity: some hundred group / entitlement values (about 60-130 kB of XML)."""
        r = self.r
        name = r.pick(["eduPersonAffiliation", "ou", "title"])
        n = r.pick([250, 400, 600])
        vals = ["urn:mace:example.org:group:%s:%s" % (self.marker(), "x" * r.pick([120, 160])) for _ in range(n)]
        ident = {name: vals}
        ident.update(self.identity(hostile=0.3, empty_ok=False))
        ident[name] = vals
        return ident

    def now_of(self, node, t=None):
        """What node's clock reads (float) at simulated time t, before any jump event."""
        return EPOCH + (self.t if t is None else t) + self.skew.get(node, 0.0)

    # ---------------------------------------------------------------- basic login
    def login(self, sp, idp, p, rb=None, sign_req=None, resp_kw=None, gap=1.0, deliver=True, resp_redirect=None):
        f = self.new_flow()
        rb = rb or self.r.pick(["redirect", "post"])
        extra = {}
        want_redirect = self.r.chance(0.2) if resp_redirect is None else resp_redirect
        if not sp.get("no_redirect_acs") and want_redirect:
            extra["resp_binding"] = "redirect"      # the SP asks for the answer over HTTP-Redirect
        self.ev("start", f=f, sp=sp["name"], idp=idp["name"], rb=rb, sign=sign_req, **extra)
        self.tick(gap)
        self.ev("req", f=f)
        self.tick(gap)
        self.ev("answer", f=f, p=p, sub=self.sub())
        self.tick(gap)
        if self.r.chance(0.04):
            # one of the two serves its own metadata from its live configuration in between
            self.ev("publish", node=self.r.pick([sp["name"], idp["name"]]))
        if deliver:
            kw = dict(resp_kw or {})
            self.ev("resp", f=f, r=0, sub=self.sub(), **kw)
            self.tick(gap)
        return f

    def sign_params(self, sp, enc_ok=True):
        """A signing/encryption combination that satisfies the SP's requirements."""
        r = self.r
        fl = fed.effective_flags(sp)
        sr = fl["wrs"] or r.chance(0.4)
        sa = fl["was"] or r.chance(0.4)
        if fl["waors"] and not (sr or sa):
            if r.chance(0.5):
                sr = True
            else:
                sa = True
        enc = enc_ok and bool(sp.get("enc_keys")) and r.chance(0.35)
        p = {"sign_response": sr, "sign_assertion": sa, "encrypt": enc}
        if sr or sa:
            if r.chance(0.7):
                p["sigalg"] = r.pick(SIGALGS)
            if r.chance(0.7):
                p["digalg"] = r.pick(DIGALGS)
        if enc:
            # (unsigned + not self-contained always fails in Entity._response - DESIGN.md section 15 - so that
            # combination is kept rare: it produces no response to look at)
            p["self_contained"] = r.chance(0.5) if sa else r.chance(0.9)
        return p


# =================================================================================== C04

BOUND_KINDS = ["cond_nooa", "cond_nb", "scd_nooa", "scd_nb", "session", "issue_late", "issue_early",
               "inverted", "none"]


def gen_c04(seed, tier):
    g = G(seed, "C04", tier)
    r = g.r
    idp = g.add_idp(0)
    nsp = g.rl.pick([1, 1, 2])
    sps = []
    for i in range(nsp):
        sps.append(g.add_sp(i, slack=g.rl.pick(SLACKS), wrs=g.rl.chance(0.25), was=g.rl.chance(0.15)))
    g.draw_skews()
    clean = (seed % 3 == 0)
    g.knobs = {"class": "clean" if clean else "edges", "nsp": nsp}
    nlogins = 8 if tier == "quick" else 14
    for _ in range(nlogins):
        sp = r.pick(sps)
        slack = sp.get("slack") or 0
        if r.chance(0.12):
            # the synchronous back channel: an attribute query over SOAP whose answer carries an IssueInstant around
            # one day (plus the allowance) before or after the SP's clock, with an otherwise fresh assertion
            f = g.new_flow()
            g.ev("mkreq", f=f, sp=sp["name"], idp=idp["name"], kind="attribute_query", rb="soap", sign=r.chance(0.5))
            g.tick(1)
            g.ev("req", f=f)
            g.tick(1)
            if clean:
                off = r.pick([0, -5, 5, -3600])
            else:
                off = r.pick([-1, 1]) * (86400 + slack) + r.pick([-5, -2, -1, 0, 1, 2, 5, 3600, -3600, 2 * 86400, -2 * 86400])
            pa = {"identity": g.identity(hostile=0.1), "sign_response": r.chance(0.5), "sign_assertion": r.chance(0.5),
                  "dialect": {"issue_instant": off, "style": r.pick(["Z", "Z", "frac", "nozone"])}}
            g.ev("aq_answer", f=f, p=pa, sub=g.sub())
            g.tick(1)
            g.ev("resp", f=f, r=0, sub=g.sub())
            g.tick(2)
            continue
        p = g.sign_params(sp)
        p["identity"] = g.identity(hostile=0.1)
        kind = "none" if clean and r.chance(0.6) else r.pick(BOUND_KINDS)
        style = r.weighted([("Z", 6), ("frac", 2), ("frac9", 1), ("nozone", 1), ("fracnozone", 1),
                            ("off+02:00", 1), ("off-05:00", 1), ("off+05:30f", 0.5), ("off+14:00", 0.5)])
        use_dialect = kind in ("cond_nb", "scd_nb", "issue_late", "issue_early", "inverted") or r.chance(0.5) \
            or style != "Z"
        life = r.pick([1, 5, 300, 3600]) if not clean else r.pick([300, 3600])
        if not use_dialect:
            p["lifetime"] = life
            if kind == "session" or r.chance(0.3):
                p["session_nooa"] = r.pick([life, life * 2, 30, 7200])
            if r.chance(0.1) and kind == "none":
                p["lifetime"] = r.pick([-300, 0])       # already expired when issued
        # timeline: start, req, answer at ta
        f = g.new_flow()
        g.ev("start", f=f, sp=sp["name"], idp=idp["name"], rb=r.pick(["redirect", "post"]))
        g.tick(1)
        g.ev("req", f=f)
        g.tick(1)
        ta = g.t
        idp_now = int(math.floor(g.now_of(idp["name"], ta)))
        d = None
        offs = {}     # bound kind -> offset from idp_now as it will appear in the document
        if use_dialect:
            d = {"style": style}
            far = 3 * 86400 if kind in ("issue_late", "issue_early") else None
            present = {k: r.chance(0.7) for k in ("cond_nb", "cond_nooa", "scd_nb", "session")}
            present["scd_nooa"] = r.chance(0.9)
            if kind in present:
                present[kind] = True
            if kind == "inverted":
                which = r.pick(["cond", "scd"])
                present[which + "_nb"] = present[which + "_nooa"] = True
            if clean:
                present["scd_nb"] = False
                present["scd_nooa"] = True
            d["cond_nb"] = (-(far or 0) - r.pick([0, 0, 5, 60])) if present["cond_nb"] else None
            d["cond_nooa"] = (far or life) if present["cond_nooa"] else None
            d["scd_nb"] = (-(far or 0) - r.pick([0, 5])) if present["scd_nb"] else None
            d["scd_nooa"] = (far or life) if present["scd_nooa"] else None
            d["session_nooa"] = (far or r.pick([life, 2 * life])) if present["session"] else None
            if kind == "inverted":
                gapv = r.pick([1, 2, 60])
                d[which + "_nb"] = life + gapv
                d[which + "_nooa"] = life
                # make both otherwise "valid now": deliver at life+gap+1 .. impossible; just deliver now
            if kind == "cond_nb":
                d["cond_nb"] = r.pick([0, 30, 600])
            if kind == "scd_nb":
                d["scd_nb"] = r.pick([0, 30, 600])
            if r.chance(0.15):
                d["restyle_all"] = True
                d["issue_instant"] = 0
            if r.chance(0.25):
                d["audiences"] = []     # Conditions that carry time bounds only, no child element (schema-legal)
            if r.chance(0.2):
                # a second bearer confirmation with a window of its own (every one that is present counts)
                d["second_sc"] = {"nooa": r.pick([-86400, -3600, -3600, life, 2 * life])}
            if r.chance(0.25):
                # the bearer confirmation names the address it was issued to, and the application tells the
                # library which address the response came from (the same one)
                d["scd_address"] = "10.0.0.5"
            if not clean and r.chance(0.12):
                # the assertion carries two AuthnStatements; the second one's session ended long ago / is fine
                d["second_authn"] = {"session_nooa": r.pick([-86400, -3600, -1, life])}
            if p.get("encrypt") and r.chance(0.5):
                # a second, fresh assertion in the clear travels with the encrypted one that carries the bounds under
                # test: every assertion's windows count, not only the first one's
                d["plain_next_to_encrypted"] = {"signed": bool(p.get("sign_assertion"))}
                if r.chance(0.4):
                    d["plain_next_to_encrypted"]["where"] = "wrapper"
                if not p.get("sigalg"):
                    p["sigalg"], p["digalg"] = r.pick(SIGALGS), r.pick(DIGALGS)
            p["dialect"] = d
            offs = {"cond_nooa": d["cond_nooa"], "cond_nb": d["cond_nb"], "scd_nooa": d["scd_nooa"],
                    "scd_nb": d["scd_nb"], "session": d["session_nooa"]}
        else:
            offs = {"cond_nooa": p["lifetime"], "cond_nb": 0, "scd_nooa": p["lifetime"], "scd_nb": None,
                    "session": p.get("session_nooa")}
        g.ev("answer", f=f, p=p, sub=g.sub())
        g.tick(1)
        # choose where the SP's clock stands relative to the targeted edge
        delta = r.pick([-2, -1, 0, 1, 2]) if r.chance(0.75) else r.pick([-3600, -100, -10, 10, 100, 3600, 2 * 86400])
        if style.startswith("off") and r.chance(0.7):
            delta = r.pick([60, 3600, 7000, 4 * 3600, -3600, -4 * 3600, 13 * 3600])   # inside the window an ignored offset opens
        target = None
        if kind in ("cond_nooa", "scd_nooa", "session") and offs.get(kind) is not None:
            target = idp_now + offs[kind] + slack + delta            # now - (b + slack) = delta
        elif kind in ("cond_nb", "scd_nb") and offs.get(kind) is not None:
            target = idp_now + offs[kind] - slack + delta            # now - (b - slack) = delta
        elif kind == "issue_late":
            target = idp_now + 86400 + slack + delta
        elif kind == "issue_early":
            target = idp_now - 86400 - slack + delta
        td = g.t
        sp_now = g.now_of(sp["name"], td)
        jump = None
        if target is not None:
            want = target + 0.5
            J = want - sp_now
            if J >= 0 and r.chance(0.5) and J < 40 * 86400:
                td = td + J                     # plain network delay
                g.t = td
            else:
                jump = J
        if jump is not None:
            g.ev("jump", node=sp["name"], delta=jump)
        ckw = {}
        if d and d.get("scd_address"):
            ckw["conv"] = {"remote_addr": d["scd_address"]}
        elif r.chance(0.1):
            ckw["conv"] = {"remote_addr": "10.0.0.7"}
        g.ev("resp", f=f, r=0, sub=g.sub(), **ckw)
        if jump is not None:
            g.ev("jump", node=sp["name"], delta=-jump)
        g.tick(2)
    return g.scenario()


# =================================================================================== C02

def gen_c02(seed, tier):
    g = G(seed, "C02", tier)
    r = g.r
    if g.rl.chance(0.4):
        # key roll-over in progress: two signing certificates published, the IdP signs with the old or the new key
        idp = g.add_idp(0, extra_certs=[9], actual_key=g.rl.pick([0, 9, 9]))
    else:
        idp = g.add_idp(0)
    # the option table is enumerated completely: one SP per setting
    sps = []
    for i in range(8):
        sps.append(g.add_sp(i, wrs=bool(i & 1), was=bool(i & 2), waors=bool(i & 4),
                            enc_keys=[6 + (i % 6)], key=3 + (i % 3)))
    # ... and a ninth SP that leaves all three options to their documented defaults
    sps.append(g.add_sp(8, wrs=None, was=None, waors=None, enc_keys=[8], key=5))
    for sp_ in sps:
        sp_["allow_unsolicited"] = g.rl.chance(0.5)     # whether a second copy of an answer can get past the request check
    g.draw_skews(choices=(0, 0, 1, -1, 3))
    faulty = (seed % 2 == 1)
    g.knobs = {"class": "faulty" if faulty else "clean"}
    cells = [(sp, sr, sa, enc) for sp in sps for sr in (False, True) for sa in (False, True)
             for enc in (False, True)]
    if tier == "quick":
        # every option setting and every signing combination still appear; plain/encrypted alternate
        # (seed // 2: independent of the clean / faulty class, which is the parity of the seed)
        cells = [c for j, c in enumerate(cells) if (j + seed // 2) % 2 == 0 or c[3] is False and r.chance(0.2)]
    r.shuffle(cells)
    ident = g.identity(hostile=0.2, empty_ok=False)
    for (sp, sr, sa, enc) in cells:
        p = {"sign_response": sr, "sign_assertion": sa, "encrypt": enc, "identity": ident, "lifetime": 600}
        if sr or sa:
            p["sigalg"] = r.pick(SIGALGS)
            p["digalg"] = r.pick(DIGALGS)
        if enc:
            p["self_contained"] = r.chance(0.5)
        if not enc and r.chance(0.12):
            # the attributes travel in a signed assertion of their own, encrypted inside the Advice of the main
            # assertion: one more signature that is present and has to verify
            pa = dict(p, advice=True, dialect={"signed_advice": True}, self_contained=True)
            if not pa.get("sigalg"):
                pa["sigalg"], pa["digalg"] = r.pick(SIGALGS), r.pick(DIGALGS)
            if faulty:
                # corrupted in the hand-over file right after it was signed (before it is encrypted and before
                # anything around it is signed)
                pa["handover"] = {"where": r.pick(["sigvalue", "digest", "text", "attr"]), "target": "assertion"}
            g.login(sp, idp, pa, gap=0.5)
            continue
        if enc and r.chance(0.12):
            # a second, plain assertion next to the encrypted one in the same Response
            plain_signed = r.chance(0.6)
            pa = dict(p, dialect={"plain_next_to_encrypted": {"signed": plain_signed}})
            if r.chance(0.3):
                # ... inside the EncryptedAssertion element, behind the EncryptedData
                pa["dialect"]["plain_next_to_encrypted"]["where"] = "wrapper"
                if faulty and plain_signed and r.chance(0.6):
                    pa["dialect"]["plain_next_to_encrypted"]["signed"] = "bogus"
                    plain_signed = False        # (no hand-over corruption on top)
            if not pa.get("sigalg"):
                pa["sigalg"], pa["digalg"] = r.pick(SIGALGS), r.pick(DIGALGS)
            if faulty and plain_signed:
                # the plain assertion corrupted right after it was signed (the run after the encrypted one's)
                pa["handover"] = {"where": r.pick(["sigvalue", "digest", "text", "attr"]), "target": "assertion",
                                  "skip": 1 if sa else 0}
            g.login(sp, idp, pa, gap=0.5)
            continue
        if faulty and (sr or sa) and r.chance(0.08):
            # the signatures are fine, but this SP's metadata holds no signing key for the IdP (entity unknown, or
            # only an encryption key listed): nothing the message carries itself can make them verify
            g.ev("setview", node=sp["name"], peer=idp["name"],
                 spec=r.pick([None, dict(idp, md_key_usage="encryption", enc_keys=[idp["key"]])]), inplace=r.chance(0.5))
            g.tick(0.25)
            g.login(sp, idp, p, gap=0.5)
            g.ev("refresh", node=sp["name"], inplace=True)
            g.tick(0.25)
            continue
        if not faulty:
            g.login(sp, idp, p, gap=0.5)
            continue
        # one delivery per present signature, that signature corrupted
        sigs = []
        if sr:
            sigs.append("response")
        if sa:
            sigs.append("assertion")
        if not sigs:
            g.login(sp, idp, p, gap=0.5)
            continue
        for target in sigs:
            where = r.pick(["sigvalue", "digest", "text", "attr"])
            pp = dict(p)
            if target == "assertion" and (enc or sr):
                # the assertion signature travels inside the ciphertext and/or under the response signature:
                # corrupt the hand-over file right after the assertion was signed, i.e. before --encrypt and
                # before the response is signed (so that every *other* signature stays valid)
                pp["handover"] = {"where": where, "target": "assertion"}
                g.login(sp, idp, pp, gap=0.5)
                if sr and not enc and r.chance(0.5):
                    # and the same cell with the corruption in transit (breaks both signatures)
                    g.login(sp, idp, dict(p), gap=0.5, resp_kw={"mut": {"k": "xml", "where": where, "target": target}})
            else:
                if target == "response" and enc and where in ("text",):
                    where = "attr"
                mut = {"k": "xml", "where": where, "target": target}
                if r.chance(0.3):
                    # the genuine message arrives first; then a copy of it (same identifiers) that was
                    # modified after signing is presented to the same SP
                    f = g.login(sp, idp, pp, gap=0.5)
                    g.ev("resp", f=f, r=0, dup=True, sub=g.sub(), mut=mut)
                    g.tick(0.5)
                else:
                    g.login(sp, idp, pp, gap=0.5, resp_kw={"mut": mut})
    return g.scenario()


# =================================================================================== C08

def gen_c08(seed, tier):
    g = G(seed, "C08", tier)
    r = g.r
    nidp = g.rl.pick([1, 1, 2])
    idps = [g.add_idp(i) for i in range(nidp)]
    nsp = g.rl.pick([1, 2, 3])
    sps = []
    for i in range(nsp):
        sps.append(g.add_sp(i, wrs=g.rl.chance(0.5), was=g.rl.chance(0.3), waors=g.rl.chance(0.3),
                            enc_keys=g.rl.pick([[6 + 2 * i], [6 + 2 * i, 7 + 2 * i], []]),
                            slack=g.rl.pick([None, 0, 60]), allow_unknown_attributes=False))
        if g.rl.chance(0.35):
            # the SP's generated metadata asks for particular attributes
            asked_for = g.rl.sample(ATTR_NAMES, g.rl.pick([1, 2, 3, 4]))
            nreq = g.rl.pick([0, 0, 1])
            sps[-1]["req_attrs"], sps[-1]["opt_attrs"] = asked_for[:nreq], asked_for[nreq:]
    ec_profiles = None
    if g.rl.chance(0.25):
        # a federation that releases by entity category: the IdPs' policy names category profiles, the SPs claim
        # categories in their metadata (with the Code of Conduct profile they also mark attributes as required)
        ec_profiles = g.rl.pick([["swamid"], ["swamid"], ["refeds"], ["edugain"], ["swamid", "edugain"], ["refeds", "edugain"]])
        for s_ in sps:
            s_["entity_category"] = g.rl.pick([
                [], [fed.EC_RE], [fed.EC_RE, fed.EC_EU], [fed.EC_RE, fed.EC_HEI], [fed.EC_NREN], [fed.EC_HEI, fed.EC_SFS],
                [fed.EC_RS], [fed.EC_COCO], [fed.EC_COCO, fed.EC_RE], [fed.EC_EU, fed.EC_NREN], [fed.EC_SFS],
                [fed.EC_RE, fed.EC_NREN, fed.EC_RS]])
            s_.pop("opt_attrs", None)
            s_.pop("req_attrs", None)
            if "edugain" in ec_profiles and g.rl.chance(0.7):
                s_["req_attrs"] = g.rl.sample(EC_NAMES, g.rl.pick([1, 2, 3]))
    g.draw_skews(choices=(0, 0, 1, -1, 3, -3, 30))
    if g.rl.chance(0.3):
        # the whole federation uses its own attribute map directory (with one home-grown attribute)
        g.custom_map = True
        for n_ in g.nodes:
            n_["attr_map"] = True
    faulty = (seed % 4 == 3)
    g.knobs = {"class": "faulty" if faulty else "clean"}
    n = 10 if tier == "quick" else 20
    for _ in range(n):
        sp, idp = r.pick(sps), r.pick(idps)
        p = g.sign_params(sp)
        p["identity"] = g.identity(hostile=0.6)
        p["lifetime"] = r.pick([300, 900, 3600])
        p["sp_policy_section"] = r.chance(0.3)
        if not ec_profiles and not sp.get("req_attrs") and not sp.get("opt_attrs") and p["identity"] and r.chance(0.15):
            # a release policy with attribute_restrictions: some attributes listed without patterns, some with a
            # pattern that only part of their values match, some not listed at all
            import re as _re
            rs = {}
            for nm, vals in p["identity"].items():
                c = r.pick(["all", "some", "some", "unlisted"])
                if c == "all":
                    rs[nm] = None
                elif c == "some":
                    # (at most one value kept: the library returns the kept values through list(set(...)), whose order
                    # depends on the interpreter's string hashing - with one value the wire bytes stay reproducible)
                    keep = r.sample(vals, r.randrange(0, min(len(vals), 1) + 1))
                    rs[nm] = [".*" + _re.escape(v_[:18]) for v_ in keep if len(v_) >= 8] or ["^never-matches$"]
            if rs:
                p["attr_restrictions"] = rs
                p["sp_policy_section"] = False
        if ec_profiles:
            p["entity_categories"] = ec_profiles
            p["sp_policy_section"] = False
            p["identity"] = {nm: [g.value(0.4) for _ in range(r.pick([1, 1, 2]))]
                             for nm in r.sample(EC_NAMES, r.pick([2, 4, 6, 9])) + r.sample(ATTR_NAMES, r.pick([0, 1, 2]))}
        p["authn_class"] = r.pick(AUTHN_CLASSES)
        fmt = r.pick(NAMEID_FORMATS)
        if r.chance(0.5):
            p["name_id"] = {"text": g.value(hostile=0.5) if fmt != NAMEID_FORMATS[2] else g.marker() + "@example.org",
                            "format": fmt}
            if r.chance(0.5):
                p["name_id"]["sp_name_qualifier"] = fed.sp_entity(sp)
            if r.chance(0.3):
                p["name_id"]["name_qualifier"] = fed.idp_entity(idp["name"])
        else:
            p["userid"] = "user%d" % r.randrange(4)
            p["nameid_format"] = fmt
        if r.chance(0.3):
            p["session_nooa"] = r.pick([600, 7200])
        kw = {}
        if faulty:
            fk = r.pick(["dup", "delay", "tool", "restart", "jump"])
            if fk == "tool":
                kw["tf"] = [{"op": "verify", "ord": r.pick([0, 1]), "mode": r.pick(modes_for("verify")),
                             "variant": r.randrange(1000)}]
        if r.chance(0.25):
            # attribute query over the SOAP back channel (attribute authority role of the IdP node)
            f = g.new_flow()
            g.ev("mkreq", f=f, sp=sp["name"], idp=idp["name"], kind="attribute_query", rb="soap", sign=r.chance(0.5))
            g.tick()
            g.ev("req", f=f)
            g.tick()
            pa = {"identity": p["identity"], "sign_response": r.chance(0.5), "sign_assertion": r.chance(0.5)}
            if pa["sign_response"] or pa["sign_assertion"]:
                pa["sigalg"] = r.pick(SIGALGS)
                pa["digalg"] = r.pick(DIGALGS)
            g.ev("aq_answer", f=f, p=pa, sub=g.sub())
            g.tick()
            g.ev("resp", f=f, r=0, sub=g.sub(), **kw)
            g.tick()
        else:
            big = r.chance(0.05)
            if big:
                p["identity"] = g.big_identity()
            f = g.login(sp, idp, p, resp_kw=kw, resp_redirect=(r.chance(0.7) if big else None))
        if faulty:
            if fk == "dup":
                g.ev("resp", f=f, r=0, dup=True, sub=g.sub())
                g.tick()
            elif fk == "restart":
                g.ev("restart", node=r.pick(sps)["name"])
                g.tick()
            elif fk == "jump":
                g.ev("jump", node=sp["name"], delta=r.pick([-5, 5, 120]))
    return g.scenario()


# =================================================================================== C05

def gen_c05(seed, tier):
    g = G(seed, "C05", tier)
    r = g.r
    idp = g.add_idp(0)
    nsp = g.rl.pick([2, 2, 3])
    sps = []
    for i in range(nsp):
        tenant = "a" if i < 2 else g.rl.pick(["a", "b"])
        rx = None
        if g.rl.chance(0.5):
            # tenant-wide pattern: the situation this fork added the option for
            rx = g.rl.pick([r"^https://[a-z0-9]+\.%s\.sim\.example/acs/" % tenant,
                            r"\.%s\.sim\.example/acs/post$" % tenant])
        sps.append(g.add_sp(i, tenant=tenant, allow_unsolicited=g.rl.chance(0.45), dest_regex=rx,
                            wrs=g.rl.chance(0.5), acs2=g.rl.chance(0.3), enc_keys=[6 + 2 * i],
                            no_redirect_acs=g.rl.chance(0.35), acs_artifact=g.rl.chance(0.4)))
        if g.rl.chance(0.1):
            # endpoints in the documented (location, binding, index) form.  (In this code base such an SP cannot
            # complete a login at all - DESIGN.md section 15 - so on the unchanged tree these runs judge nothing.)
            sps[-1]["acs_index"] = g.rl.pick([[0, 1, 2], [1, 2, 3]])
    g.draw_skews(choices=(0, 0, 1, -1))
    clean = (seed % 4 == 0)
    g.knobs = {"class": "clean" if clean else "faulty"}
    n = 8 if tier == "quick" else 16
    open_flows = []
    for _ in range(n):
        sp = r.pick(sps)
        others = [s for s in sps if s is not sp]
        p = g.sign_params(sp, enc_ok=r.chance(0.3))
        p["identity"] = g.identity(hostile=0.1)
        p["lifetime"] = 3600
        conv = r.chance(0.4)
        d = {}
        if not clean and r.chance(0.6):
            me = "$sp"
            other_ent = fed.sp_entity(r.pick(others))
            layout = r.pick(["one", "two-both", "two-one-foreign", "multi-aud", "foreign", "foreign-first",
                             "none", "nobody", "me-and-nobody"])
            d["audiences"] = {"one": [[me]], "two-both": [[me], [me, other_ent]],
                              "two-one-foreign": r.pick([[[me], [other_ent]], [[other_ent], [me]]]),
                              "multi-aud": [[other_ent, me]], "foreign": [[other_ent]],
                              "foreign-first": [[other_ent], [other_ent, me]], "none": [],
                              # a restriction that lists no audience at all (nobody is addressed)
                              "nobody": [[]], "me-and-nobody": r.pick([[[me], []], [[], [me]]])}[layout]
            if r.chance(0.3):
                d["scd_irt"] = r.pick(["id-someoneelse0000001", None])
                if r.chance(0.4):
                    d["first_sc_nodata"] = True
            if r.chance(0.3):
                me_ = fed.sp_entity(sp)
                d["recipient"] = r.pick([fed.sp_endpoints(r.pick(others))["acs_post"], me_,
                                         "https://evil.example/acs",
                                         # near misses: parts of the SP's own entity identifier / endpoints
                                         me_[:-1], me_.rsplit("/", 1)[0], me_.split("//", 1)[1], me_ + "/",
                                         fed.sp_endpoints(sp)["acs_post"][:-1], fed.sp_endpoints(sp)["acs_post"] + "/x"])
            if r.chance(0.2):
                d["resp_irt"] = r.pick(["id-unknown00000000001", None])
            if r.chance(0.25):
                d["destination"] = r.pick([fed.sp_endpoints(r.pick(others))["acs_post"], None,
                                           "https://evil.example/acs",
                                           fed.sp_endpoints(sp)["acs_post"] + "x",
                                           # the SP's own entity identifier is a legal Recipient, not a Destination
                                           fed.sp_entity(sp), fed.sp_entity(sp),
                                           fed.sp_endpoints(sp)["acs_post"][:-1], fed.sp_endpoints(sp)["slo_post"]])
            if r.chance(0.2):
                d["second_sc"] = {"irt": r.pick(["id-someoneelse0000002", None]) if r.chance(0.5) else None,
                                  "recipient": r.pick(["https://evil.example/acs", fed.sp_endpoints(sp)["acs_post"]])}
                if d["second_sc"]["irt"] is None:
                    del d["second_sc"]["irt"]
                if r.chance(0.5):
                    # every confirmation's Recipient counts, not only the last one's: an earlier confirmation
                    # addressed elsewhere, the last one addressed to this SP, conversation information supplied
                    d["recipient"] = r.pick([fed.sp_endpoints(r.pick(others))["acs_post"], "https://evil.example/acs"])
                    d["second_sc"] = {"recipient": r.pick([fed.sp_endpoints(sp)["acs_post"], fed.sp_entity(sp)])}
                    conv = True
        if d and p.get("encrypt") and r.chance(0.5):
            # ... and a perfectly good second assertion in the clear travels with the encrypted one (in the Response,
            # or inside the EncryptedAssertion element behind the EncryptedData): each assertion is judged on its own
            d["plain_next_to_encrypted"] = {"signed": bool(p.get("sign_assertion"))}
            if r.chance(0.4):
                d["plain_next_to_encrypted"]["where"] = "wrapper"
            if not p.get("sigalg"):
                p["sigalg"], p["digalg"] = r.pick(SIGALGS), r.pick(DIGALGS)
        if d:
            p["dialect"] = d
        if r.chance(0.2):
            # an attribute query over the SOAP back channel; the answer's audience restrictions count as well
            f = g.new_flow()
            g.ev("mkreq", f=f, sp=sp["name"], idp=idp["name"], kind="attribute_query", rb="soap", sign=r.chance(0.5))
            g.tick()
            g.ev("req", f=f)
            g.tick()
            pa = {"identity": p["identity"], "sign_response": r.chance(0.5), "sign_assertion": r.chance(0.5)}
            if "audiences" in d:
                pa["dialect"] = {"audiences": d["audiences"]}
            g.ev("aq_answer", f=f, p=pa, sub=g.sub())
            g.tick()
            g.ev("resp", f=f, r=0, sub=g.sub())
            g.tick()
            continue
        mode = "plain" if clean else r.pick(["plain", "dup", "replay-late", "misdeliver", "other-endpoint",
                                              "restart", "reorder", "unsol", "drop", "ecp-between"])
        if mode == "unsol":
            f = g.new_flow()
            g.ev("unsol", f=f, idp=idp["name"], sp=sp["name"], p=p, sub=g.sub(),
                 irt=r.pick([None, None, "id-neverissued0000001"]))
            g.tick()
            g.ev("resp", f=f, r=0, conv=conv, sub=g.sub())
            g.tick()
            continue
        f = g.login(sp, idp, p, deliver=False)
        if mode == "plain":
            g.ev("resp", f=f, r=0, conv=conv, sub=g.sub())
        elif mode == "dup":
            g.ev("resp", f=f, r=0, conv=conv, sub=g.sub())
            g.tick(0.5)
            g.ev("resp", f=f, r=0, conv=conv, dup=True, sub=g.sub())
        elif mode == "ecp-between":
            # the same long-lived client also serves ECP: between the delivery and its replay an ECP / PAOS answer is
            # handed to parse_ecp_authn_response() (and refused or not) - the replay is judged as if nothing had happened
            g.ev("resp", f=f, r=0, conv=conv, sub=g.sub())
            g.tick(0.5)
            g.ev("ecp", f=f, r=0)
            g.tick(0.5)
            g.ev("resp", f=f, r=0, conv=conv, dup=True, sub=g.sub())
        elif mode == "replay-late":
            g.ev("resp", f=f, r=0, conv=conv, sub=g.sub())
            open_flows.append(f)
        elif mode == "misdeliver":
            o = r.pick(others)
            g.ev("resp", f=f, r=0, to=o["name"], conv=conv, dup=True, sub=g.sub())
            g.tick(0.5)
            if r.chance(0.5):
                g.ev("resp", f=f, r=0, conv=conv, sub=g.sub())
        elif mode == "other-endpoint":
            via = r.pick(["acs_redirect", "acs_redirect", "acs_post2", "acs_artifact", "acs_artifact"])
            g.ev("resp", f=f, r=0, via=via, conv=conv, dup=True, sub=g.sub(),
                 reencode=(via == "acs_redirect" and r.chance(0.8)))
        elif mode == "restart":
            g.ev("restart", node=sp["name"])
            g.tick(0.5)
            g.ev("resp", f=f, r=0, conv=conv, dup=True, sub=g.sub())
        elif mode == "reorder":
            sp2 = r.pick(sps)
            p2 = dict(p, identity=g.identity(hostile=0.1))
            f2 = g.login(sp2, idp, p2, deliver=False)
            g.ev("resp", f=f2, r=0, conv=conv, sub=g.sub())
            g.tick(0.5)
            g.ev("resp", f=f, r=0, conv=conv, sub=g.sub())
        elif mode == "drop":
            open_flows.append(f)
        g.tick()
        if open_flows and r.chance(0.4):
            fo = open_flows.pop(r.randrange(len(open_flows)))
            g.ev("resp", f=fo, r=0, conv=r.chance(0.4), dup=True, sub=g.sub(),
                 **({"to": r.pick(sps)["name"]} if r.chance(0.3) else {}))
            g.tick()
    return g.scenario()


# =================================================================================== C03

def gen_c03(seed, tier):
    g = G(seed, "C03", tier)
    r = g.r
    nidp = g.rl.pick([2, 2, 3])
    idps = []
    for i in range(nidp):
        kw = {}
        if g.rl.chance(0.3):
            kw["extra_certs"] = [9 + i]           # key roll-over in progress: two signing certs published
        kw["want_authn_requests_signed"] = g.rl.chance(0.3)
        kw["only_md_keys"] = g.rl.pick([None, None, False])
        if g.rl.chance(0.2):
            kw["late_md"] = True
        if g.rl.chance(0.4):
            # the IdP also publishes an encryption certificate; some federations drop the `use` attributes
            kw["enc_keys"] = [6 + i]
            kw["md_strip_use"] = g.rl.pick([None, None, "encryption", "all", "signing"])
        idps.append(g.add_idp(i, **kw))
    members = list(idps)
    if g.rl.chance(0.35):
        # one more federation member that nobody logs in at: a stand-alone authentication authority (or an entity
        # publishing a generic RoleDescriptor-free subset of its roles) with a signing key of its own
        members.append(g.add_idp(nidp, key=8, md_only_roles=g.rl.pick([["AuthnAuthorityDescriptor"], ["AuthnAuthorityDescriptor"],
                                                                        ["PDPDescriptor"], ["AttributeAuthorityDescriptor"]])))
    nsp = g.rl.pick([1, 2])
    sps = []
    for i in range(nsp):
        wrs = g.rl.chance(0.6)
        sps.append(g.add_sp(i, wrs=wrs, was=(not wrs) or g.rl.chance(0.3),
                            only_md_keys=g.rl.pick([None, True, True, False, False]),
                            sign_requests=g.rl.chance(0.5)))
        if g.rl.chance(0.25):
            sps[-1]["late_md"] = True       # starts with an empty metadata store, the federation is loaded afterwards
        if sps[-1].get("only_md_keys") and g.rl.chance(0.7):
            sps[-1]["md_keys_text"] = g.rl.pick(["True", "True", "true", "yes", "1", "on"])
    g.draw_skews(choices=(0, 0, 1))
    clean = (seed % 4 == 0)
    g.knobs = {"class": "clean" if clean else "faulty"}
    n = 8 if tier == "quick" else 16
    for _ in range(n):
        sp, idp = r.pick(sps), r.pick(idps)
        if not clean and r.chance(0.55):
            fk = r.pick(["roll", "roll-keep", "misdeploy-own", "misdeploy-other", "misdeploy-member",
                         "view-missing", "view-enc-only", "view-other-key", "refresh", "sp-signs-with-enc-key",
                         "idp-initiated-encrypted-first"])
            if fk == "sp-signs-with-enc-key":
                # the SP's key file is (mis)deployed with its encryption key: requests are signed with a key
                # the metadata lists for encryption only
                g.ev("misdeploy", node=sp["name"], key=sp["enc_keys"][0], cert=r.pick(["own", "other"]))
            elif fk == "idp-initiated-encrypted-first":
                fu = g.new_flow()
                pu = {"sign_response": True, "sign_assertion": fed.effective_flags(sp)["was"], "encrypt": True,
                      "identity": g.identity(hostile=0.1), "lifetime": 3600}
                g.ev("unsol", f=fu, idp=idp["name"], sp=sp["name"], p=pu, sub=g.sub())
                g.tick()
                g.ev("resp", f=fu, r=0, sub=g.sub())
                g.tick()
            if fk in ("roll", "roll-keep"):
                g.ev("roll", idp=idp["name"], new_key=r.pick([9, 10, 11]), keep_old=(fk == "roll-keep"))
            elif fk.startswith("misdeploy") and idp.get("enc_keys") and r.chance(0.5):
                # the key file holds the IdP's *encryption* key: trusted only if metadata lists it use-less
                g.ev("misdeploy", idp=idp["name"], key=idp["enc_keys"][0], cert=r.pick(["own", "other"]))
            elif fk.startswith("misdeploy"):
                if fk == "misdeploy-member":
                    other = r.pick([x for x in idps if x is not idp])
                    key, cert = other["key"], r.pick(["own", "other"])
                else:
                    key, cert = r.pick([9, 10, 11]), ("own" if fk.endswith("own") else "other")
                g.ev("misdeploy", idp=idp["name"], key=key, cert=cert)
            elif fk == "view-missing":
                g.ev("setview", node=sp["name"], peer=idp["name"], spec=None)
            elif fk == "view-enc-only":
                g.ev("setview", node=sp["name"], peer=idp["name"], spec=dict(idp, md_key_usage="encryption", enc_keys=[idp["key"]]))
            elif fk == "view-other-key":
                g.ev("setview", node=sp["name"], peer=idp["name"], spec=dict(idp, key=r.pick([9, 10, 11])))
            elif fk == "refresh":
                g.ev("refresh", node=sp["name"], inplace=r.chance(0.6))
            g.tick()
        p = g.sign_params(sp, enc_ok=r.chance(0.2))
        p["identity"] = g.identity(hostile=0.1)
        p["lifetime"] = 3600
        if not clean and r.chance(0.25):
            # claimed Issuer x actual signing key: this IdP asserts under another federation member's name
            other = r.pick([x for x in members if x is not idp])
            if len(members) > len(idps) and r.chance(0.5):
                other = members[-1]
            which = r.pick(["both", "response", "assertion"])
            claimed = fed.idp_entity(other["name"])
            if r.chance(0.35):
                # ... or under a name that is in nobody's metadata but one character away from its own
                own = fed.idp_entity(idp["name"])
                claimed = r.pick([own + "/", own[:-1], own.upper(), own + " ", own.replace("https://", "http://")])
            d = {}
            if which in ("both", "response"):
                d["resp_issuer"] = claimed
            if which in ("both", "assertion"):
                d["assertion_issuer"] = claimed
            p["dialect"] = d
        elif not clean and r.chance(0.12) and sp.get("enc_keys"):
            # two signed assertions come out of one EncryptedAssertion element: the encrypted, genuine one and a second
            # one (in the clear, behind the EncryptedData, or next to the element) signed with a key that is not this
            # IdP's - each signature is judged under the keys of the Issuer its assertion names
            p.update({"encrypt": True, "sign_assertion": True, "self_contained": True,
                      "dialect": {"plain_next_to_encrypted": {"signed": "other-key", "where": r.pick(["wrapper", "wrapper", None]),
                                                              "key": r.pick([9, 10, 11, r.pick([x for x in idps if x is not idp])["key"]])}}})
            if not p.get("sigalg"):
                p["sigalg"], p["digalg"] = r.pick(SIGALGS), r.pick(DIGALGS)
        elif r.chance(0.15) and len(idps) > 1 and not p.get("encrypt"):
            # an attribute assertion of another member, signed, carried encrypted in the Advice of this IdP's
            # assertion: trusted only under the keys of the Issuer it names itself
            other = r.pick([x for x in idps if x is not idp])
            p.update({"advice": True, "self_contained": True, "sign_assertion": True,
                      "dialect": {"signed_advice": True, "advice_issuer": other["name"],
                                  "advice_key": r.pick(["issuer", "carrier"])}})
            if not p.get("sigalg"):
                p["sigalg"], p["digalg"] = r.pick(SIGALGS), r.pick(DIGALGS)
        g.login(sp, idp, p)
        if r.chance(0.4):
            # the other signed message types take the same trust decision: a logout request or query of the SP
            # at the IdP, or a logout request of the IdP at the SP, signed with whatever key file is deployed now
            kind = r.pick(["logout_request", "logout_request", "attribute_query", "logout_idp2sp", "authn_query"])
            f2 = g.new_flow()
            if kind == "logout_idp2sp":
                g.ev("mkreq", f=f2, sp=sp["name"], idp=idp["name"], kind="logout_request", direction="idp2sp",
                     rb=r.pick(["soap", "post"]), sign=True)
            else:
                g.ev("mkreq", f=f2, sp=sp["name"], idp=idp["name"], kind=kind,
                     rb=(r.pick(["soap", "post"]) if kind == "logout_request" else "soap"), sign=True)
            g.tick()
            g.ev("req", f=f2)
            g.tick()
    return g.scenario()


# =================================================================================== C17

def gen_c17(seed, tier):
    g = G(seed, "C17", tier)
    r = g.r
    hooked = g.rl.chance(0.3)
    idp = g.add_idp(0, **({"enc_in_config": g.rl.chance(0.6), "enc_hook_allow": [6, 7, 8, 9]} if hooked else {}))
    nsp = g.rl.pick([1, 2, 2])
    sps = []
    for i in range(nsp):
        sps.append(g.add_sp(i, enc_keys=g.rl.pick([[6 + 2 * i], [6 + 2 * i, 7 + 2 * i]]),
                            wrs=g.rl.chance(0.4), was=g.rl.chance(0.3), slack=g.rl.pick([None, 0, 3]),
                            allow_unsolicited=g.rl.chance(0.3)))
        if g.rl.chance(0.3):
            sps[-1]["md_enc_methods"] = g.rl.pick([
                ["http://www.w3.org/2001/04/xmlenc#aes128-cbc", "http://www.w3.org/2001/04/xmlenc#rsa-oaep-mgf1p"],
                ["http://www.w3.org/2009/xmlenc11#aes256-gcm"],
                ["http://www.w3.org/2001/04/xmlenc#tripledes-cbc", "http://www.w3.org/2001/04/xmlenc#rsa-1_5"]])
    g.draw_skews(choices=(0, 0, 1, -1))
    clean = (seed % 3 == 0)
    g.knobs = {"class": "clean" if clean else "faulty"}
    n = 7 if tier == "quick" else 14
    for _ in range(n):
        sp = r.pick(sps)
        p = g.sign_params(sp)
        p["encrypt"] = True
        p["self_contained"] = r.chance(0.5) if p.get("sign_assertion") else r.chance(0.9)
        p["identity"] = g.identity(hostile=0.3, empty_ok=False)
        p["lifetime"] = r.pick([60, 600])
        if r.chance(0.5):
            p["name_id"] = {"text": g.marker("nid"), "format": NAMEID_FORMATS[1]}
        if hooked and r.chance(0.6):
            # an encryption certificate comes with the request; the operator's hook accepts the SPs' own
            # certificates only.  Encryption may be requested per call or only switched on in the configuration
            p["enc_cert"] = r.pick([sp["enc_keys"][0], sp["enc_keys"][0], 10, 11])
            if idp.get("enc_in_config") and r.chance(0.6):
                p["encrypt"] = None
                if r.chance(0.3):
                    p["enc_arg"] = "none"
            g.login(sp, idp, p)
            continue
        if not hooked and r.chance(0.12):
            # the SP sent a certificate of its own with the request (and keeps the private key, possibly next to
            # others, for this request only); the IdP encrypts for it
            fit = r.pick([10, 11])
            p["enc_cert"] = fit
            keys_ = r.pick([[fit], [fit, 21 - fit], [21 - fit, fit], [fit, 21 - fit]])
            g.login(sp, idp, p, resp_kw={"req_keys": keys_})
            continue
        if r.chance(0.12):
            # the attribute authority role: an attribute query over SOAP whose answer is to be encrypted, with every
            # way of signing it
            f = g.new_flow()
            g.ev("mkreq", f=f, sp=sp["name"], idp=idp["name"], kind="attribute_query", rb="soap", sign=r.chance(0.5))
            g.tick()
            g.ev("req", f=f)
            g.tick()
            pa = {"identity": p["identity"], "sign_response": r.chance(0.5), "sign_assertion": r.chance(0.6),
                  "encrypt": True, "self_contained": r.chance(0.5)}
            g.ev("aq_answer", f=f, p=pa, sub=g.sub())
            g.tick()
            g.ev("resp", f=f, r=0, sub=g.sub())
            g.tick()
            continue
        variant = r.weighted([("plain", 6), ("advice", 1), ("pefim", 1), ("signed-advice", 1)]) if clean or r.chance(0.5) else "plain"
        if variant == "advice":
            p["advice"] = True
        elif variant == "pefim":
            p["pefim"] = True
            p["encrypt"] = r.chance(0.5)
            if r.chance(0.5):
                p["enc_cert_advice"] = r.pick([10, 11])     # the certificate of the SP behind this proxy SP
        elif variant == "signed-advice":
            # the attributes in a signed assertion of their own, encrypted inside the Advice; the main assertion
            # around it encrypted as well or not; in faulty runs the advice assertion is corrupted right after it
            # was signed (inside both layers of ciphertext)
            p["advice"] = True
            p["dialect"] = {"signed_advice": True}
            p["encrypt"] = r.chance(0.6)
            p["self_contained"] = True
            if not p.get("sigalg"):
                p["sigalg"], p["digalg"] = r.pick(SIGALGS), r.pick(DIGALGS)
            if not clean:
                p["handover"] = {"where": r.pick(["sigvalue", "digest", "text", "attr"]), "target": "assertion"}
        if clean or variant != "plain":
            g.login(sp, idp, p)
            continue
        fk = r.pick(["stale-enc-second", "stale-enc-none", "expire", "foreign-audience", "unsolicited-replay",
                     "handover", "misdeliver", "scd-irt", "missing-assertion-sig", "dup", "enc-cert-appears",
                     "enc-cert-appears", "enc-tool-fault", "second-in-wrapper"])
        kw = {}
        after = []
        if fk == "enc-tool-fault":
            # the encryption step fails (for one or for every certificate of the SP): the IdP may refuse to
            # answer, it may not emit the assertion readable; afterwards a healthy retry must work
            tf = [{"op": "encrypt", "ord": r.pick([0, "all", "all"]), "mode": r.pick(modes_for("encrypt")),
                   "variant": r.randrange(10 ** 6)}]
            f = g.new_flow()
            g.ev("start", f=f, sp=sp["name"], idp=idp["name"], rb=r.pick(["redirect", "post"]), sign=None)
            g.tick()
            g.ev("req", f=f)
            g.tick()
            g.ev("answer", f=f, p=p, sub=g.sub(), tf=tf)
            g.tick()
            g.ev("answer", f=f, p=p, sub=g.sub())
            g.tick()
            g.ev("resp", f=f, r=r.pick([0, 1]), sub=g.sub())
            g.tick()
            continue
        if fk == "enc-cert-appears":
            # the long-running IdP first knows the SP without any encryption certificate (nothing can be
            # encrypted for it - out of scope), then reloads the SP's metadata in place: from now on a
            # request to encrypt must be honoured
            g.ev("setview", node=idp["name"], peer=sp["name"], spec=dict(sp, enc_keys=[]), inplace=r.chance(0.5))
            g.tick()
            p0 = dict(p, identity=g.identity(hostile=0.3, empty_ok=False))
            g.login(sp, idp, p0)
            g.ev("refresh", node=idp["name"], inplace=True)
            g.tick()
            g.login(sp, idp, p)
            continue
        if fk == "stale-enc-second" and len(sp["enc_keys"]) > 1:
            g.ev("setview", node=idp["name"], peer=sp["name"], spec=dict(sp, enc_keys=[sp["enc_keys"][1]]))
            after.append(("refresh", {"node": idp["name"]}))
        elif fk == "stale-enc-none":
            g.ev("setview", node=idp["name"], peer=sp["name"], spec=dict(sp, enc_keys=[11]))
            after.append(("refresh", {"node": idp["name"]}))
        elif fk == "expire":
            delta = r.pick([1, 2, 30])
            slack = sp.get("slack") or 0
            f = g.login(sp, idp, p, deliver=False)
            g.t += p["lifetime"] + slack + delta
            g.ev("resp", f=f, r=0, sub=g.sub())
            g.tick()
            continue
        elif fk == "foreign-audience":
            others = [s for s in sps if s is not sp]
            p["dialect"] = {"audiences": [[fed.sp_entity(others[0]) if others else "https://other.example/sp"]]}
            if r.chance(0.4):
                # ... and a perfectly good plain assertion travels next to the encrypted one
                p["dialect"]["plain_next_to_encrypted"] = {"signed": True}
                p["sign_assertion"] = True
                if not p.get("sigalg"):
                    p["sigalg"], p["digalg"] = r.pick(SIGALGS), r.pick(DIGALGS)
        elif fk == "second-in-wrapper":
            # two assertions come out of one EncryptedAssertion element: the encrypted, genuinely signed one and,
            # behind the EncryptedData, one more in the clear - unsigned, signed, or signed and edited afterwards
            p["sign_assertion"] = True
            p["dialect"] = {"plain_next_to_encrypted": {"where": "wrapper", "signed": r.pick(["bogus", "bogus", True, False])}}
            if not p.get("sigalg"):
                p["sigalg"], p["digalg"] = r.pick(SIGALGS), r.pick(DIGALGS)
        elif fk == "scd-irt":
            p["dialect"] = {"scd_irt": "id-someoneelse0000009"}
        elif fk == "handover":
            p["sign_assertion"] = True
            p["handover"] = {"where": r.pick(["sigvalue", "digest", "text", "attr"]), "target": "assertion"}
        elif fk == "missing-assertion-sig":
            p["sign_assertion"] = False
            if r.chance(0.4):
                p["dialect"] = {"plain_next_to_encrypted": {"signed": True}}
                p["sigalg"], p["digalg"] = r.pick(SIGALGS), r.pick(DIGALGS)
        g.tick()
        f = g.login(sp, idp, p, resp_kw=kw)
        if fk == "unsolicited-replay" or fk == "dup":
            g.ev("resp", f=f, r=0, dup=True, sub=g.sub())
            g.tick()
        if fk == "misdeliver" and len(sps) > 1:
            o = r.pick([s for s in sps if s is not sp])
            g.ev("resp", f=f, r=0, to=o["name"], dup=True, sub=g.sub())
            g.tick()
        for k, kwargs in after:
            g.ev(k, **kwargs)
            g.tick()
    return g.scenario()


# =================================================================================== C20

def gen_c20(seed, tier):
    g = G(seed, "C20", tier)
    r = g.r
    idp = g.add_idp(0, want_authn_requests_signed=g.rl.chance(0.3))
    nsp = g.rl.pick([1, 2])
    sps = []
    for i in range(nsp):
        sps.append(g.add_sp(i, enc_keys=g.rl.pick([[6 + 2 * i], [6 + 2 * i, 7 + 2 * i]]),
                            wrs=g.rl.chance(0.5), was=g.rl.chance(0.4), waors=g.rl.chance(0.3),
                            sign_requests=g.rl.chance(0.5)))
    g.draw_skews(choices=(0, 0, 1))
    g.knobs = {"class": "faulty"}
    n = 8 if tier == "quick" else 16
    for _ in range(n):
        sp = r.pick(sps)
        p = g.sign_params(sp)
        if r.chance(0.5):
            p["sign_response"] = True
        if r.chance(0.5):
            p["sign_assertion"] = True
        p["identity"] = g.identity(hostile=0.1, empty_ok=False)
        p["lifetime"] = 3600
        if r.chance(0.1):
            # single logout driven by the client itself over SOAP; the answer's verification is faulted (or not),
            # afterwards the same logout with a healthy tool goes through (bounded liveness)
            mode_ = r.pick(modes_for("verify"))
            # (the request goes out unsigned: do_logout() with a signed request over SOAP ends in an AttributeError
            # in this code base - apply_binding(..., sign=True) is handed the already signed text - DESIGN.md section 15)
            g.ev("slo", sp=sp["name"], idp=idp["name"], sign_req=False, sign_answer=r.chance(0.85),
                 **({"tf": [{"op": "verify", "ord": "all", "mode": mode_, "variant": r.randrange(10 ** 6)}]} if r.chance(0.8) else {}))
            g.tick()
            g.ev("slo", sp=sp["name"], idp=idp["name"], sign_req=False, sign_answer=True)
            g.tick()
            continue
        site = r.pick(["verify", "verify", "verify", "decrypt", "sign", "encrypt", "req-verify"])
        place = r.pick([0, 1, "all", "all", "1+", "2+"])
        if site == "decrypt" or site == "encrypt":
            p["encrypt"] = True
            if site == "decrypt" and r.chance(0.5):
                # the tool breaks down in the middle of the delivery: the first decryption works, the later ones fail
                place = r.pick(["1+", "1+", "2+"])
                if r.chance(0.6):
                    p["sign_assertion"], p["sign_response"] = False, True
            if site == "decrypt" and len(sp["enc_keys"]) > 1 and r.chance(0.5):
                # the IdP uses the SP's second certificate: first decrypt attempt fails by itself
                g.ev("setview", node=idp["name"], peer=sp["name"], spec=dict(sp, enc_keys=[sp["enc_keys"][1]]))
        if site in ("verify", "decrypt") and r.chance(0.25):
            # the attribute assertion travels encrypted inside the Advice of the main assertion (PEFIM style):
            # more tool invocations per delivery, the fault may hit any one of them
            p["sign_assertion"] = True
            if r.chance(0.6):
                # ... and is signed itself (another IdP product's composition of the same building blocks)
                p["advice"] = True
                p["encrypt"] = False
                p["dialect"] = {"signed_advice": True}
            else:
                p["pefim"] = True
                p["encrypt"] = r.chance(0.3)
            p["self_contained"] = True
            place = r.pick([0, 1, 2, 3, "1+", "2+", "3+", "all"])
        mode = r.pick(modes_for({"verify": "verify", "decrypt": "decrypt", "sign": "sign", "encrypt": "encrypt",
                                 "req-verify": "verify"}[site]))
        tf = [{"op": {"req-verify": "verify"}.get(site, site), "ord": place, "mode": mode, "variant": r.randrange(10 ** 6)}]
        f = g.new_flow()
        sign_req = True if site == "req-verify" else None
        g.ev("start", f=f, sp=sp["name"], idp=idp["name"], rb=r.pick(["redirect", "post"]), sign=sign_req)
        g.tick()
        g.ev("req", f=f, **({"tf": tf} if site == "req-verify" else {}))
        g.tick()
        if site == "req-verify":
            # after the fault: the same request again, tool healthy (bounded liveness)
            g.ev("req", f=f)
            g.tick()
        g.ev("answer", f=f, p=p, sub=g.sub(), **({"tf": tf} if site in ("sign", "encrypt") else {}))
        g.tick()
        if site in ("sign", "encrypt"):
            g.ev("answer", f=f, p=p, sub=g.sub())      # healthy retry: no poisoning
            g.tick()
            g.ev("resp", f=f, r=r.pick([0, 1]), sub=g.sub())
        else:
            g.ev("resp", f=f, r=0, sub=g.sub(), **({"tf": tf} if site in ("verify", "decrypt") else {}))
            g.tick()
            # faults stopped: the same bytes again must be judged on their merits (it is a replay now,
            # so only an allow_unsolicited SP may accept), and a *new* login must succeed
        g.tick()
        p2 = dict(p, identity=g.identity(hostile=0.1, empty_ok=False))
        p2.pop("handover", None)
        g.login(sp, idp, p2)
    return g.scenario()


# =================================================================================== C10

def gen_c10(seed, tier):
    g = G(seed, "C10", tier)
    r = g.r
    nidp = g.rl.pick([1, 2, 2])
    idps = [g.add_idp(i, want_authn_requests_signed=g.rl.chance(0.4), slack=g.rl.pick([None, 0, 3, 60]),
                      only_md_keys=g.rl.pick([None, None, False]), only_valid_cert=g.rl.chance(0.15))
            for i in range(nidp)]
    nsp = g.rl.pick([1, 2])
    sps = [g.add_sp(i, sign_requests=g.rl.chance(0.5), slack=g.rl.pick([None, 0, 60])) for i in range(nsp)]
    g.draw_skews()
    clean = (seed % 4 == 0)
    g.knobs = {"class": "clean" if clean else "faulty"}
    n = 14 if tier == "quick" else 30
    for _ in range(n):
        sp, idp = r.pick(sps), r.pick(idps)
        slack = idp.get("slack") or 0
        f = g.new_flow()
        rb = r.pick(["redirect", "post"])
        sign = r.pick([None, True, False])
        kw = {}
        if sign and r.chance(0.6):
            kw["sigalg"] = r.pick(SIGALGS)
            kw["digalg"] = r.pick(DIGALGS)
        if r.chance(0.1):
            # the receiver's /metadata handler is hit: metadata generated from the live configuration
            g.ev("publish", node=r.pick([idp["name"], idp["name"], sp["name"]]))
            g.tick(0.25)
        kindmsg = r.weighted([("authn_request", 6), ("logout_request", 3), ("attribute_query", 2), ("logout_idp2sp", 2),
                              ("manage_name_id_request", 1), ("name_id_mapping_request", 1), ("authn_query", 1)])
        # (AuthzDecisionQuery is not sent: the fork has no SOAP unwrapper for it, Entity.unravel fails with
        # UnravelError for every such message - DESIGN.md section 15)
        if kindmsg == "authn_request":
            g.ev("start", f=f, sp=sp["name"], idp=idp["name"], rb=rb, sign=sign, **kw)
        elif kindmsg == "logout_idp2sp":
            # single logout initiated by the IdP: the *SP* is the receiver that has to validate the request
            rb = r.pick(["soap", "post", "redirect"])
            g.ev("mkreq", f=f, sp=sp["name"], idp=idp["name"], kind="logout_request", direction="idp2sp", rb=rb,
                 sign=bool(sign), no_dest=r.chance(0.25), **kw)
            g.tick()
            fk = "plain" if clean else r.pick(["plain", "stale", "other-sp", "other-endpoint", "truncate", "xml-attr",
                                               "xml-sig", "dup", "tool"]
                                              + (["soap-wrap", "soap-wrap"] if sign and rb == "soap" else []))
            slack_sp = sp.get("slack") or 0
            if fk == "stale":
                delta = r.pick([-2, -1, 0, 1, 2, 3600])
                sender_now = int(math.floor(g.now_of(idp["name"], g.t - 1)))
                sign_dir = r.pick([1, -1])
                target = sender_now + sign_dir * (86400 + slack_sp) + delta
                J = target + 0.5 - g.now_of(sp["name"], g.t)
                g.ev("jump", node=sp["name"], delta=J)
                g.ev("req", f=f)
                g.ev("jump", node=sp["name"], delta=-J)
            elif fk == "other-sp" and len(sps) > 1:
                g.ev("req", f=f, to=r.pick([x for x in sps if x is not sp])["name"])
            elif fk == "other-endpoint":
                g.ev("req", f=f, via="slo_" + r.pick([b for b in ("soap", "post", "redirect") if b != rb]))
            elif fk == "truncate":
                g.ev("req", f=f, mut={"k": "truncate", "frac": r.random()}, sub=g.sub())
            elif fk == "soap-wrap":
                g.ev("req", f=f, mut={"k": "xml", "where": "soap-wrap", "ids": r.pick(["other", "other", "same"]),
                                      "sig": r.pick(["moved", "moved", "copied"]), "place": r.pick(["header", "header", "after-body"])}, sub=g.sub())
            elif fk in ("xml-attr", "xml-sig"):
                g.ev("req", f=f, mut={"k": "xml", "where": "attr" if fk == "xml-attr" else r.pick(["sigvalue", "digest", "sigvalue-empty"]),
                                      "target": "response"}, sub=g.sub())
            elif fk == "dup":
                g.ev("req", f=f)
                g.ev("req", f=f)
            elif fk == "tool":
                g.ev("req", f=f, tf=[{"op": "verify", "ord": r.pick([0, "all"]), "mode": r.pick(modes_for("verify")),
                                      "variant": r.randrange(10 ** 6)}])
                g.ev("req", f=f)
            else:
                g.ev("req", f=f)
            g.tick()
            continue
        else:
            rb = r.pick(["soap", "post", "redirect"]) if kindmsg == "logout_request" else "soap"
            g.ev("mkreq", f=f, sp=sp["name"], idp=idp["name"], kind=kindmsg, rb=rb, sign=bool(sign),
                 no_dest=r.chance(0.25), **kw)
        g.tick()
        if clean:
            g.ev("req", f=f)
            g.tick()
            continue
        fk = r.pick(["plain", "stale", "future", "other-idp", "other-endpoint", "truncate", "b64char", "xml-attr",
                     "xml-text", "xml-sig", "dup", "wrong-key", "stale-md", "missing-md", "tool", "required-attr"]
                    + (["soap-wrap", "soap-wrap"] if sign and rb == "soap" else []))
        ts = g.t - 1
        sp_now_at_start = int(math.floor(g.now_of(sp["name"], ts)))
        if fk == "plain":
            g.ev("req", f=f)
        elif fk in ("stale", "future"):
            delta = r.pick([-2, -1, 0, 1, 2]) if r.chance(0.8) else r.pick([10, 3600, 86400])
            if fk == "stale":
                target = sp_now_at_start + 86400 + slack + delta
            else:
                target = sp_now_at_start - 86400 - slack + delta
            J = target + 0.5 - g.now_of(idp["name"], g.t)
            rkw = {}
            if not sign and r.chance(0.3):
                # ... and the sender writes its IssueInstant with a UTC offset (same instant, other spelling)
                rkw = {"mut": {"k": "xml", "where": "restyle-instant", "target": "response",
                               "style": r.pick(["off+14:00", "off+05:30", "off+01:00"] if fk == "stale" else
                                               ["off-12:00", "off-08:00", "off-01:00"])}, "sub": g.sub()}
            if J >= 0 and r.chance(0.5):
                g.t += J
                g.ev("req", f=f, **rkw)
            else:
                g.ev("jump", node=idp["name"], delta=J)
                g.ev("req", f=f, **rkw)
                g.ev("jump", node=idp["name"], delta=-J)
        elif fk == "other-idp" and len(idps) > 1:
            o = r.pick([x for x in idps if x is not idp])
            g.ev("req", f=f, to=o["name"])
        elif fk == "other-endpoint":
            if kindmsg == "authn_request":
                g.ev("req", f=f, via=r.pick(["sso_post" if rb == "redirect" else "sso_redirect",
                                              "slo_" + rb]))
            elif kindmsg == "logout_request":
                others = [b for b in ("soap", "post", "redirect") if b != rb]
                g.ev("req", f=f, via=r.pick(["slo_" + r.pick(others)] + (["sso_" + rb] if rb != "soap" else ["aa_soap"])))
            else:
                g.ev("req", f=f, via=r.pick(["slo_soap", "aa_soap", "mni_soap", "nim_soap", "aqs_soap", "azs_soap"]))
        elif fk == "truncate":
            g.ev("req", f=f, mut={"k": "truncate", "frac": r.random()}, sub=g.sub())
        elif fk == "b64char":
            g.ev("req", f=f, mut={"k": "b64char"}, sub=g.sub())
        elif fk == "soap-wrap":
            g.ev("req", f=f, mut={"k": "xml", "where": "soap-wrap", "ids": r.pick(["other", "other", "same"]),
                                  "sig": r.pick(["moved", "moved", "copied"]), "place": r.pick(["header", "header", "after-body"])}, sub=g.sub())
        elif fk == "required-attr":
            g.ev("req", f=f, mut={"k": "xml", "where": "required-attr", "target": "response",
                                  "attr": r.pick(["ID", "ID", "Version", "IssueInstant"]),
                                  "mode": r.pick(["empty", "empty", "absent"])}, sub=g.sub())
        elif fk in ("xml-attr", "xml-text", "xml-sig"):
            where = {"xml-attr": "attr", "xml-text": "text", "xml-sig": r.pick(["sigvalue", "digest", "sigvalue-empty"])}[fk]
            g.ev("req", f=f, mut={"k": "xml", "where": where, "target": "response"}, sub=g.sub())
        elif fk == "dup":
            g.ev("req", f=f)
            g.tick(0.5)
            g.ev("req", f=f)
        elif fk == "wrong-key":
            wk = dict(sp, key=r.pick([9, 10, 11]))
            if mkrng(seed, "wrongkey-enc", f).chance(0.4):
                # ... and the key the request is signed with is one the receiver knows for this sender, but for
                # encryption only (use="encryption" KeyDescriptor): it authenticates nothing
                wk["enc_keys"] = [sp["key"]]
            g.ev("setview", node=idp["name"], peer=sp["name"], spec=wk)
            g.ev("req", f=f)
            g.ev("refresh", node=idp["name"])
        elif fk == "stale-md":
            g.ev("setview", node=idp["name"], peer=sp["name"], spec=dict(sp, md_key_usage="encryption"))
            g.ev("req", f=f)
            g.ev("refresh", node=idp["name"])
        elif fk == "missing-md":
            g.ev("setview", node=idp["name"], peer=sp["name"], spec=None)
            g.ev("req", f=f)
            g.ev("refresh", node=idp["name"])
        elif fk == "tool":
            g.ev("req", f=f, tf=[{"op": "verify", "ord": r.pick([0, "all"]), "mode": r.pick(modes_for("verify")),
                                  "variant": r.randrange(10 ** 6)}])
            g.tick(0.5)
            g.ev("req", f=f)
        else:
            g.ev("req", f=f)
        g.tick()
    return g.scenario()


GENERATORS = {"C02": gen_c02, "C03": gen_c03, "C04": gen_c04, "C05": gen_c05, "C08": gen_c08,
              "C10": gen_c10, "C17": gen_c17, "C20": gen_c20}


def generate(seed, prop, tier):
    return GENERATORS[prop](seed, tier)
