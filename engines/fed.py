"""Federation building blocks: real pysaml2 IdP / SP nodes configured from each other's
*generated* metadata, plus the harness code that plays "the application" on each node the
way the documented examples do.

Node specs are plain JSON-able dicts so that they can live in a replay file:

  idp: {"kind": "idp", "name": "idp0", "key": 0, "extra_certs": [..], "enc_only": None|k,
        "want_authn_requests_signed": bool, "slack": None|int, "only_md_keys": bool}
  sp:  {"kind": "sp", "name": "sp0", "key": 4, "enc_keys": [6, 7], "wrs": bool, "was": bool,
        "waors": bool, "allow_unsolicited": bool, "slack": None|int, "sign_requests": bool,
        "dest_regex": None|str, "only_md_keys": bool, "tenant": "a"}
"""
import copy
import os
import json

from simcore import seams
from simcore.world import key_file, cert_file

seams.bootstrap()

from saml2_tophat import BINDING_HTTP_POST, BINDING_HTTP_REDIRECT, BINDING_SOAP, BINDING_HTTP_ARTIFACT  # noqa: E402
from saml2_tophat import saml, samlp  # noqa: E402
from saml2_tophat.client import Saml2Client  # noqa: E402
from saml2_tophat.server import Server  # noqa: E402
from saml2_tophat.config import Config, SPConfig, IdPConfig  # noqa: E402
from saml2_tophat.metadata import entity_descriptor  # noqa: E402
from saml2_tophat.saml import NAME_FORMAT_URI, NAMEID_FORMAT_TRANSIENT, NAMEID_FORMAT_PERSISTENT  # noqa: E402
from saml2_tophat.assertion import Policy  # noqa: E402

AUTHN_PASSWORD = "urn:oasis:names:tc:SAML:2.0:ac:classes:Password"
AUTHN_PPT = "urn:oasis:names:tc:SAML:2.0:ac:classes:PasswordProtectedTransport"
AUTHN_X509 = "urn:oasis:names:tc:SAML:2.0:ac:classes:X509"


def idp_entity(name):
    return "https://%s.sim.example/idp" % name


def sp_entity(spec):
    return "https://%s.%s.sim.example/sp" % (spec["name"], spec.get("tenant", "t"))


def idp_endpoints(name):
    base = "https://%s.sim.example" % name
    return {"sso_redirect": base + "/sso/redirect", "sso_post": base + "/sso/post",
            "slo_soap": base + "/slo/soap", "slo_post": base + "/slo/post",
            "slo_redirect": base + "/slo/redirect", "aa_soap": base + "/aa/soap",
            "mni_soap": base + "/mni/soap", "nim_soap": base + "/nim/soap",
            "aqs_soap": base + "/aq/soap", "azs_soap": base + "/pdp/soap"}


def sp_endpoints(spec):
    base = "https://%s.%s.sim.example" % (spec["name"], spec.get("tenant", "t"))
    return {"acs_post": base + "/acs/post", "acs_redirect": base + "/acs/redirect",
            "acs_post2": base + "/acs/post2", "acs_artifact": base + "/acs/artifact",
            "slo_soap": base + "/slo/soap", "slo_post": base + "/slo/post",
            "slo_redirect": base + "/slo/redirect"}


DOCUMENTED_DEFAULTS = {"wrs": True, "was": False, "waors": False, "allow_unsolicited": False}


def effective_flags(spec):
    """The SP options as documented: explicit value, else the documented default (docs/howto/config.rst)."""
    return {k: (DOCUMENTED_DEFAULTS[k] if spec.get(k, False) is None else bool(spec.get(k, False)))
            for k in DOCUMENTED_DEFAULTS}


# ---- entity categories: the release rules of the category profiles the library ships modules for, written down
# here from the profiles themselves (SWAMID entity category release, REFEDS R&S, GEANT Data Protection Code of
# Conduct) - the oracle never reads saml2_tophat.entity_category.*
EC_RE = "http://www.swamid.se/category/research-and-education"
EC_SFS = "http://www.swamid.se/category/sfs-1993-1153"
EC_RS = "http://refeds.org/category/research-and-scholarship"
EC_EU = "http://www.swamid.se/category/eu-adequate-protection"
EC_NREN = "http://www.swamid.se/category/nren-service"
EC_HEI = "http://www.swamid.se/category/hei-service"
EC_COCO = "http://www.geant.net/uri/dataprotection-code-of-conduct/v1"
_EC_NAME = ["givenName", "displayName", "sn", "cn"]
_EC_ORG = ["c", "o", "co", "norEduOrgAcronym", "schacHomeOrganization", "schacHomeOrganizationType"]
_EC_OTHER = ["eduPersonPrincipalName", "eduPersonScopedAffiliation", "mail", "eduPersonAssurance"]
# profile -> [(categories the SP must ALL have, attributes, only those the SP marks as required)]
EC_PROFILES = {
    "swamid": [((), ["eduPersonTargetedID"], False),
               ((EC_SFS,), ["norEduPersonNIN", "eduPersonAssurance"], False),
               ((EC_RE, EC_EU), _EC_NAME + _EC_ORG + _EC_OTHER, False),
               ((EC_RE, EC_NREN), _EC_NAME + _EC_ORG + _EC_OTHER, False),
               ((EC_RE, EC_HEI), _EC_NAME + _EC_ORG + _EC_OTHER, False),
               ((EC_RS,), ["eduPersonTargetedID", "eduPersonPrincipalName", "mail", "displayName", "givenName", "sn",
                           "eduPersonScopedAffiliation"], False)],
    "refeds": [((), ["eduPersonTargetedID"], False),
               ((EC_RS,), ["eduPersonPrincipalName", "eduPersonScopedAffiliation", "mail", "givenName", "sn",
                           "displayName"], False)],
    "edugain": [((), ["eduPersonTargetedID"], False),
                ((EC_COCO,), ["eduPersonPrincipalName", "eduPersonScopedAffiliation", "eduPersonAffiliation", "mail",
                              "displayName", "cn", "schacHomeOrganization"], True)],
}
EC_ATTR_POOL = sorted(set(a for rules in EC_PROFILES.values() for _, al, _ in rules for a in al) - {"eduPersonTargetedID"})


def ec_allowed(profiles, sp_view):
    """Lower-case names of the attributes the category profiles entitle this SP to."""
    have = set(sp_view.get("entity_category") or [])
    required = set(n.lower() for n in (sp_view.get("req_attrs") or []))
    allowed = set()
    for prof in profiles:
        for need, attrs, only_required in EC_PROFILES[prof]:
            if all(c in have for c in need):
                for a in attrs:
                    if not only_required or a.lower() in required:
                        allowed.add(a.lower())
    return allowed


def restrict_values(identity, restrictions):
    """The documented meaning of the policy option attribute_restrictions: only the listed attributes (names
    compared case-insensitively) are released, and of a listed attribute with patterns only the values one of the
    patterns matches (re.match); an attribute left without values is not released at all."""
    import re
    low = {k.lower(): v for k, v in restrictions.items()}
    out = {}
    for k, vals in identity.items():
        if k.lower() not in low:
            continue
        pats = low[k.lower()]
        if not pats:
            out[k] = list(vals)
            continue
        keep = [v for v in vals if any(re.match(p_, v) for p_ in pats)]
        if keep:
            out[k] = keep
    return out


def expected_release(identity, sp_view, ec_profiles=None, restrictions=None):
    """What an IdP that knows the SP through `sp_view` releases of `identity` (documented: only what the SP's
    metadata asks for, when it asks for anything; a missing required attribute refuses the answer; with an
    entity-category release policy: only what the SP's categories entitle it to).
    -> (released identity | None when undecided, names asked for (lower case) | None, refusal expected)"""
    if ec_profiles:
        allowed = ec_allowed(ec_profiles, sp_view)
        return {k: v for k, v in identity.items() if k.lower() in allowed}, allowed, False
    req, opt = list(sp_view.get("req_attrs") or []), list(sp_view.get("opt_attrs") or [])
    if restrictions and not req and not opt:
        rel = restrict_values(identity, restrictions)
        return rel, set(k.lower() for k in restrictions), False
    if not req and not opt:
        return identity, None, False
    asked_for = set(n.lower() for n in req + opt)
    released, undecided, refuse = {}, False, False
    for n in req + opt:
        cands = [k for k in identity if k.lower() == n.lower()]
        if len(cands) > 1:
            undecided = True        # several spellings of one name: which one is picked is not documented
        elif cands:
            released[cands[0]] = identity[cands[0]]
        elif n in req:
            refuse = True
    return (None if undecided else released), asked_for, refuse


def entity_of(spec):
    return idp_entity(spec["name"]) if spec["kind"] == "idp" else sp_entity(spec)


class SameCertRoller(object):
    """`cert_handler_extra_class` of an IdP that rolls its signing certificate per signed answer: deterministic, it
    hands out the configured pair again (as text: CertHandler.update_cert writes it to the tmp files in text mode)."""

    def use_generate_cert_func(self):
        return True

    def use_validate_cert_func(self):
        return False

    def generate_cert(self, generate_cert_info, root_cert_string, root_key_string):
        def _t(s):
            return s.decode("ascii") if isinstance(s, bytes) else s
        return _t(root_cert_string), _t(root_key_string)

    def __deepcopy__(self, memo):
        return self


def base_config(spec):
    if spec["kind"] == "idp":
        ep = idp_endpoints(spec["name"])
        svc = {
            "endpoints": {
                "single_sign_on_service": [(ep["sso_redirect"], BINDING_HTTP_REDIRECT),
                                           (ep["sso_post"], BINDING_HTTP_POST)],
                "single_logout_service": [(ep["slo_soap"], BINDING_SOAP),
                                          (ep["slo_post"], BINDING_HTTP_POST),
                                          (ep["slo_redirect"], BINDING_HTTP_REDIRECT)],
                "manage_name_id_service": [(ep["mni_soap"], BINDING_SOAP)],
                "name_id_mapping_service": [(ep["nim_soap"], BINDING_SOAP)],
            },
            "policy": {"default": {"lifetime": {"minutes": 15}, "attribute_restrictions": None,
                                   "name_form": NAME_FORMAT_URI}},
            "name_id_format": [NAMEID_FORMAT_TRANSIENT, NAMEID_FORMAT_PERSISTENT],
            "domain": "users.%s.sim.example" % spec["name"],
        }
        if spec.get("want_authn_requests_signed"):
            svc["want_authn_requests_signed"] = True
        if spec.get("only_valid_cert"):
            svc["want_authn_requests_only_with_valid_cert"] = True
        if spec.get("enc_in_config"):
            svc["encrypt_assertion"] = True          # encryption switched on by configuration, not per call
        if spec.get("enc_hook_allow") is not None:
            # the operator's policy hook for request-supplied encryption certificates: only these pass
            allowed = set(_cert_body(k) for k in spec["enc_hook_allow"])

            def _hook(cert, allowed=allowed):
                body = "".join(l.strip() for l in str(cert).splitlines() if l.strip() and not l.startswith("-----"))
                return body in allowed
            svc["verify_encrypt_cert_assertion"] = _hook
        cnf = {
            "entityid": idp_entity(spec["name"]),
            "name": spec["name"],
            "service": {"idp": svc,
                        "aa": {"endpoints": {"attribute_service": [(ep["aa_soap"], BINDING_SOAP)]},
                               "policy": {"default": {"lifetime": {"minutes": 15},
                                                      "attribute_restrictions": None,
                                                      "name_form": NAME_FORMAT_URI}}},
                        "aq": {"endpoints": {"authn_query_service": [(ep["aqs_soap"], BINDING_SOAP)]}},
                        "pdp": {"endpoints": {"authz_service": [(ep["azs_soap"], BINDING_SOAP)]}}},
        }
    else:
        ep = sp_endpoints(spec)
        svc = {
            "endpoints": {
                "assertion_consumer_service": [(ep["acs_post"], BINDING_HTTP_POST)] + (
                    [] if spec.get("no_redirect_acs") else [(ep["acs_redirect"], BINDING_HTTP_REDIRECT)]),
                "single_logout_service": [(ep["slo_soap"], BINDING_SOAP),
                                          (ep["slo_post"], BINDING_HTTP_POST),
                                          (ep["slo_redirect"], BINDING_HTTP_REDIRECT)],
            },
            "authn_requests_signed": bool(spec.get("sign_requests", False)),
            "logout_requests_signed": bool(spec.get("sign_requests", False)),
        }
        # An option whose spec value is None is left out of the configuration: the documented default applies
        # (want_response_signed on, the others off) - see effective_flags().
        for opt, key_ in (("want_response_signed", "wrs"), ("want_assertions_signed", "was"),
                          ("want_assertions_or_response_signed", "waors"), ("allow_unsolicited", "allow_unsolicited")):
            if spec.get(key_, False) is not None:
                svc[opt] = bool(spec.get(key_, False))
        # what the SP asks for in its metadata (RequestedAttribute): the IdP releases nothing else to it
        if spec.get("req_attrs"):
            svc["required_attributes"] = list(spec["req_attrs"])
        if spec.get("opt_attrs"):
            svc["optional_attributes"] = list(spec["opt_attrs"])
        if spec.get("acs_artifact"):
            svc["endpoints"]["assertion_consumer_service"].append((ep["acs_artifact"], BINDING_HTTP_ARTIFACT))
        if spec.get("acs2"):
            svc["endpoints"]["assertion_consumer_service"].append((ep["acs_post2"], BINDING_HTTP_POST))
        if spec.get("acs_index"):
            # endpoints given with explicit (integer) indexes, the documented 3-tuple form
            acs_ = svc["endpoints"]["assertion_consumer_service"]
            svc["endpoints"]["assertion_consumer_service"] = [
                (u_, b_, spec["acs_index"][j_ % len(spec["acs_index"])] + (100 if j_ >= len(spec["acs_index"]) else 0))
                for j_, (u_, b_) in enumerate(acs_)]
        if spec.get("dest_regex"):
            svc["valid_destination_regex"] = spec["dest_regex"]
        cnf = {
            "entityid": sp_entity(spec),
            "name": spec["name"],
            "service": {"sp": svc},
        }
        if spec.get("entity_category"):
            # the entity categories the SP claims in the EntityAttributes of its generated metadata
            cnf["entity_category"] = list(spec["entity_category"])
    if spec.get("str_bools"):
        # booleans of the service section spelled as the strings "true" / "false" (Config.load_special accepts both)
        for k_, v_ in list(svc.items()):
            if isinstance(v_, bool):
                svc[k_] = "true" if v_ else "false"
    if spec.get("enc_keys"):
        cnf["encryption_keypairs"] = [{"key_file": key_file(k), "cert_file": cert_file(k)}
                                      for k in spec["enc_keys"]]
    akey = spec.get("actual_key", spec["key"])
    cnf["key_file"] = key_file(akey)
    cnf["cert_file"] = cert_file(akey if spec.get("actual_cert") == "other" else spec["key"])
    if spec.get("extra_certs"):
        cnf["additional_cert_files"] = [cert_file(k) for k in spec["extra_certs"]]
    if spec.get("md_key_usage"):
        cnf["metadata_key_usage"] = spec["md_key_usage"]
    cnf["xmlsec_binary"] = seams.FAKE_BIN
    if spec["kind"] == "idp" and spec.get("rolling_cert"):
        import tempfile
        base_ = os.path.join(tempfile.gettempdir(), "roll-%d-%s" % (os.getpid(), spec["name"]))
        cnf["generate_cert_info"] = {"cn": "%s.sim.example" % spec["name"], "country_code": "se", "state": "ac",
                                     "city": "Umea", "organization": "sim", "organization_unit": "roll"}
        cnf["tmp_cert_file"] = base_ + ".crt"
        cnf["tmp_key_file"] = base_ + ".key"
        cnf["cert_handler_extra_class"] = SameCertRoller()
    if spec.get("slack") is not None:
        cnf["accepted_time_diff"] = spec["slack"]
    if spec.get("only_md_keys") is not None:
        cnf["only_use_keys_in_metadata"] = bool(spec["only_md_keys"])
        if spec["only_md_keys"] and spec.get("md_keys_text"):
            # the switch comes from an environment variable / ini file: switched on, spelled as text
            cnf["only_use_keys_in_metadata"] = spec["md_keys_text"]
    if spec.get("allow_unknown_attributes"):
        cnf["allow_unknown_attributes"] = True
    if spec.get("attr_map"):
        # the deployment's own attribute maps (entity-wide option)
        cnf["attribute_map_dir"] = os.path.join(seams.FIXTURES, "attributemaps_custom")
    return cnf


def _cert_body(k):
    from simcore.world import cert_b64
    return cert_b64(k)


def cert_pem(k):
    with open(cert_file(k)) as f:
        return f.read()


_MD_CACHE = {}


def metadata_xml(spec):
    """The entity's metadata as the *real* `entity_descriptor` generates it from its config."""
    spec = {k: v for k, v in spec.items() if not k.startswith("actual_")}
    key = json.dumps(spec, sort_keys=True)
    if key not in _MD_CACHE:
        cnf = base_config(spec)
        conf = (IdPConfig() if spec["kind"] == "idp" else SPConfig())
        conf.load(copy.deepcopy(cnf), metadata_construction=True)
        ed = entity_descriptor(conf)
        xml = "%s" % ed
        strip = spec.get("md_strip_use")
        if strip:
            # a federation operator's tooling that drops the optional `use` attribute of KeyDescriptors
            # (a use-less descriptor counts for signing and for encryption)
            import xml.etree.ElementTree as ET
            root = ET.fromstring(xml.encode("utf-8"))
            for kd in root.iter("{urn:oasis:names:tc:SAML:2.0:metadata}KeyDescriptor"):
                if strip == "all" or kd.get("use") == strip:
                    kd.attrib.pop("use", None)
            xml = ET.tostring(root, encoding="unicode")
        only = spec.get("md_only_roles")
        if only:
            # the entity publishes only some of its roles (e.g. a stand-alone authentication authority: an
            # AuthnAuthorityDescriptor with its signing key and nothing else)
            import xml.etree.ElementTree as ET
            root = ET.fromstring(xml.encode("utf-8"))
            for ch in list(root):
                loc = ch.tag.rsplit("}", 1)[-1]
                if loc.endswith("Descriptor") and loc not in only:
                    root.remove(ch)
            xml = ET.tostring(root, encoding="unicode")
        methods = spec.get("md_enc_methods")
        if methods:
            # the entity's metadata as other products publish it: the encryption KeyDescriptors name the
            # algorithms the owner prefers (md:EncryptionMethod) - informative, the key is an encryption key all the same
            import xml.etree.ElementTree as ET
            root = ET.fromstring(xml.encode("utf-8"))
            for kd in root.iter("{urn:oasis:names:tc:SAML:2.0:metadata}KeyDescriptor"):
                if kd.get("use") in (None, "encryption"):
                    for alg in methods:
                        ET.SubElement(kd, "{urn:oasis:names:tc:SAML:2.0:metadata}EncryptionMethod", {"Algorithm": alg})
            xml = ET.tostring(root, encoding="unicode")
        _MD_CACHE[key] = xml
    return _MD_CACHE[key]


def full_config(spec, peer_md):
    cnf = base_config(spec)
    cnf["metadata"] = {"inline": list(peer_md)}
    return cnf


def md_path(world, node_name, peer_name):
    import os
    d = os.path.join(world.tmpdir(), node_name)
    os.makedirs(d, exist_ok=True)
    return os.path.join(d, "%s.xml" % peer_name)


def file_config(world, spec, peer_specs):
    """Peers' metadata as local files (one per peer) - what lets a long-lived node refresh a
    peer's metadata in place with MetadataStore.load('local', same_path)."""
    cnf = base_config(spec)
    paths = []
    for p in peer_specs:
        path = md_path(world, spec["name"], p["name"])
        with open(path, "w") as f:
            f.write(metadata_xml(p))
        paths.append(path)
    cnf["metadata"] = {"local": paths}
    return cnf


class Node(object):
    def __init__(self, world, spec, peer_specs):
        """peer_specs: the specs *as this node knows them* (its metadata view of the peers)."""
        self.world = world
        self.spec = spec
        self.name = spec["name"]
        self.kind = spec["kind"]
        self.entity_id = entity_of(spec)
        self.peer_view = {entity_of(p): copy.deepcopy(p) for p in peer_specs}
        self.build()

    def build(self):
        raise NotImplementedError

    def md_certs_for(self, entity_id, use="signing"):
        """Ground truth of this node's metadata view (from the generator's data, not from the
        store under test): key labels listed for `use` (or without use) for that entity."""
        p = self.peer_view.get(entity_id)
        if p is None:
            return None
        usage = p.get("md_key_usage", "both")
        strip = p.get("md_strip_use")
        sign_kds = (["k%d" % p["key"]] + ["k%d" % k for k in p.get("extra_certs", [])]) if usage in ("both", "signing") else []
        # entity_descriptor() publishes encryption KeyDescriptors for encryption_keypairs only
        enc_kds = ["k%d" % k for k in (p.get("enc_keys") or [])] if usage in ("both", "encryption") else []
        res = []
        if use == "signing":
            res.extend(sign_kds)
            if strip in ("all", "encryption"):
                res.extend(k for k in enc_kds if k not in res)     # use-less descriptors count for both uses
        else:
            res.extend(enc_kds)
            if strip in ("all", "signing"):
                res.extend(k for k in sign_kds if k not in res)
        return res


def _refresh_in_place(node, obj, peer_specs):
    """The running process re-reads its peers' metadata (no restart): every peer file is rewritten
    and loaded again under the same key, a peer that disappeared gets an empty aggregate."""
    import os
    new_view = {entity_of(p): copy.deepcopy(p) for p in peer_specs}
    with node.world.on(node.name):
        names = set(p["name"] for p in node.peer_view.values()) | set(p["name"] for p in peer_specs)
        by_name = {p["name"]: p for p in peer_specs}
        for name in sorted(names):
            path = md_path(node.world, node.name, name)
            if name in by_name:
                with open(path, "w") as f:
                    f.write(metadata_xml(by_name[name]))
            else:
                with open(path, "w") as f:
                    f.write('<?xml version="1.0"?><ns0:EntitiesDescriptor xmlns:ns0="urn:oasis:names:tc:SAML:2.0:metadata" Name="empty"/>')
            obj.metadata.load("local", path)
    node.peer_view = new_view


def use_boolean_backend(sec):
    """A custom crypto back end as the documented CryptoBackend interface describes it: validate_signature()
    answers 'True if the signature was correct otherwise False' (the shipped pyXMLSecurity back end does; the
    xmlsec1 one raises instead).  Everything else is the node's real back end."""
    from saml2_tophat.sigver import CryptoBackend, XmlsecError, SignatureError

    class BooleanBackend(CryptoBackend):
        def __init__(self, inner):
            CryptoBackend.__init__(self)
            self._inner = inner

        def __getattr__(self, name):
            return getattr(self._inner, name)

        def version(self):
            return self._inner.version()

        def encrypt(self, *a, **kw):
            return self._inner.encrypt(*a, **kw)

        def encrypt_assertion(self, *a, **kw):
            return self._inner.encrypt_assertion(*a, **kw)

        def decrypt(self, *a, **kw):
            return self._inner.decrypt(*a, **kw)

        def sign_statement(self, *a, **kw):
            return self._inner.sign_statement(*a, **kw)

        def validate_signature(self, *a, **kw):
            try:
                return bool(self._inner.validate_signature(*a, **kw))
            except (XmlsecError, SignatureError):
                return False
    if not isinstance(sec.crypto, BooleanBackend):
        sec.crypto = BooleanBackend(sec.crypto)


def _late_metadata(spec, cnf):
    """Deployment knob `late_md`: the entity starts with an empty metadata store (configured, no source yet) and the
    application loads the federation's metadata into the running object afterwards.  -> the paths to load later."""
    if not spec.get("late_md"):
        return []
    paths = list(cnf["metadata"]["local"])
    cnf["metadata"] = {"local": []}
    return paths


class IdPNode(Node):
    def build(self):
        with self.world.on(self.name):
            cnf = file_config(self.world, self.spec, list(self.peer_view.values()))
            late = _late_metadata(self.spec, cnf)
            self.server = Server(config=IdPConfig().load(copy.deepcopy(cnf)))
            self.server.config.context = "idp"
            for path_ in late:
                self.server.metadata.load("local", path_)
            if self.spec.get("bool_backend"):
                use_boolean_backend(self.server.sec)
        self.endpoints = idp_endpoints(self.name)

    def close(self):
        try:
            self.server.close()
        except Exception:
            pass

    def refresh_in_place(self, peer_specs):
        _refresh_in_place(self, self.server, peer_specs)


class SPNode(Node):
    def build(self):
        with self.world.on(self.name):
            cnf = file_config(self.world, self.spec, list(self.peer_view.values()))
            late = _late_metadata(self.spec, cnf)
            if self.spec.get("plain_config"):
                # the documented all-in-one deployment: one plain Config object holding an "sp" section next to
                # an "idp" one, no default context
                cnf2 = copy.deepcopy(cnf)
                cnf2["service"]["idp"] = {"endpoints": {"single_sign_on_service": [
                    ("https://%s.sim.example/proxy/sso" % self.name, BINDING_HTTP_REDIRECT)]}}
                conf = Config().load(cnf2)
            else:
                conf = SPConfig().load(copy.deepcopy(cnf))
                conf.context = "sp"
            self.client = Saml2Client(config=conf)
            for path_ in late:
                self.client.metadata.load("local", path_)
            if self.spec.get("bool_backend"):
                use_boolean_backend(self.client.sec)
        self.endpoints = sp_endpoints(self.spec)
        if not hasattr(self, "outstanding"):
            self.outstanding = {}

    def refresh_in_place(self, peer_specs):
        _refresh_in_place(self, self.client, peer_specs)

    def restart(self):
        """Process restart: objects rebuilt from config, volatile application state lost."""
        self.outstanding = {}
        self.build()

    def close(self):
        pass
