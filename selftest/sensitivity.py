#!/venv/bin/python
"""Sensitivity self-test: small semantic patches applied to a scratch copy of /repo/src (never to
/repo itself); each must be caught by the quick check of the property named.  The scratch copy
lives under /tmp and is removed afterwards; checks are pointed at it with VERIF_REPO_SRC.

usage: sensitivity.py [-jN] [patch-id ...]     (default: all)   -> selftest/sensitivity_results.json
"""
import json
import os
import shutil
import subprocess
import sys
import tempfile
import time

VERIF = os.path.dirname(os.path.dirname(os.path.abspath(__file__)))
SRC = "/repo/src"

P = []


def patch(pid, props, fname, old, new, note=""):
    P.append({"id": pid, "props": props, "file": fname, "old": old, "new": new, "note": note})


# ---------------------------------------------------------------- C02
patch("c02-unrequired-invalid-response-sig-ignored", ["C02"], "saml2_tophat/sigver.py",
      "        if response.signature:\n            if 'do_not_verify' in kwargs:",
      "        if response.signature and require_response_signature:\n            if 'do_not_verify' in kwargs:",
      "a present response signature is only verified when it is required")
patch("c02-missing-required-assertion-sig-accepted", ["C02"], "saml2_tophat/response.py",
      "            if self.require_signature:\n                raise SignatureError(\"Signature missing for assertion\")",
      "            if self.require_signature and False:\n                raise SignatureError(\"Signature missing for assertion\")")
patch("c02-either-or-never-enforced", ["C02"], "saml2_tophat/entity.py",
      "            if not response_is_signed and not assertions_are_signed:",
      "            if not response_is_signed and not assertions_are_signed and False:")
patch("c02-unrequired-invalid-assertion-sig-ignored", ["C02"], "saml2_tophat/response.py",
      "            if not verified and self.do_not_verify is False:\n                try:",
      "            if not verified and self.do_not_verify is False and self.require_signature:\n                try:")
patch("c02-default-want-response-signed-off", ["C02"], "saml2_tophat/client_base.py",
      "            \"want_response_signed\": True,", "            \"want_response_signed\": False,",
      "the documented default of an option nobody configured")
# ---------------------------------------------------------------- C03
patch("c03-default-only-md-keys-off", ["C03"], "saml2_tophat/config.py",
      "        self.only_use_keys_in_metadata = True", "        self.only_use_keys_in_metadata = False")
patch("c03-embedded-cert-trusted-despite-only-md-keys", ["C03"], "saml2_tophat/sigver.py",
      "        if not certs and not self.only_use_keys_in_metadata:", "        if not certs:")
patch("c03-any-key-use-counts-as-signing", ["C03"], "saml2_tophat/mdstore.py",
      "                        if \"use\" in key and key[\"use\"] == use:", "                        if \"use\" in key:")
patch("c03-embedded-cert-consulted-first", ["C03"], "saml2_tophat/sigver.py",
      "        if not certs and not self.only_use_keys_in_metadata:\n            logger.debug('==== Certs from instance ====')\n            certs = [",
      "        if not self.only_use_keys_in_metadata:\n            logger.debug('==== Certs from instance ====')\n            certs = certs + [")
# ---------------------------------------------------------------- C04
patch("c04-nooa-two-seconds-late", ["C04"], "saml2_tophat/validate.py",
      "        if now > nooa + slack:", "        if now > nooa + slack + 2:")
patch("c04-notbefore-three-seconds-early", ["C04"], "saml2_tophat/validate.py",
      "        if nbefore > now + slack:", "        if nbefore > now + slack + 3:")
patch("c04-issue-instant-two-days", ["C04"], "saml2_tophat/response.py",
      "        upper = time_util.shift_time(time_util.time_in_a_while(days=1),\n                                     self.timeslack).timetuple()\n        lower = time_util.shift_time(time_util.time_a_while_ago(days=1),\n                                     -self.timeslack).timetuple()\n        # print(\"issue_instant: %s\" % self.response.issue_instant)",
      "        upper = time_util.shift_time(time_util.time_in_a_while(days=2),\n                                     self.timeslack).timetuple()\n        lower = time_util.shift_time(time_util.time_a_while_ago(days=2),\n                                     -self.timeslack).timetuple()\n        # print(\"issue_instant: %s\" % self.response.issue_instant)")
patch("c04-session-expiry-not-checked", ["C04"], "saml2_tophat/response.py",
      "        if authn_statement.session_not_on_or_after:\n            if validate_on_or_after(",
      "        if authn_statement.session_not_on_or_after and False:\n            if validate_on_or_after(")
patch("c04-inverted-window-accepted", ["C04"], "saml2_tophat/response.py",
      "            if not later_than(conditions.not_on_or_after,\n                              conditions.not_before):\n                return False",
      "            if not later_than(conditions.not_on_or_after,\n                              conditions.not_before):\n                pass")
patch("c04-session-info-prefers-conditions", ["C04"], "saml2_tophat/response.py",
      "        if self.session_not_on_or_after > 0:\n            nooa = self.session_not_on_or_after\n        else:\n            nooa = self.not_on_or_after",
      "        if self.not_on_or_after > 0:\n            nooa = self.not_on_or_after\n        else:\n            nooa = self.session_not_on_or_after")
patch("c04-bearer-nooa-not-checked", ["C04"], "saml2_tophat/response.py",
      "        validate_on_or_after(data.not_on_or_after, self.timeslack)\n        validate_before(data.not_before, self.timeslack)",
      "        validate_before(data.not_before, self.timeslack)")
patch("c04-slack-applied-twice", ["C04"], "saml2_tophat/validate.py",
      "        if now > nooa + slack:", "        if now > nooa + 2 * slack:")
# ---------------------------------------------------------------- C05
patch("c05-unknown-inresponseto-accepted", ["C05"], "saml2_tophat/response.py",
      "            else:\n                logger.exception(\n                    \"Unsolicited response %s\" % self.in_response_to)\n                raise UnsolicitedResponse(\n                    \"Unsolicited response: %s\" % self.in_response_to)\n\n        return self",
      "            else:\n                pass\n\n        return self")
patch("c05-destination-not-compared", ["C05"], "saml2_tophat/response.py",
      "            elif self.response.destination not in self.return_addrs:", "            elif False:")
patch("c05-audience-skipped-when-unsolicited", ["C05", "C17"], "saml2_tophat/response.py",
      "        if not for_me(conditions, self.entity_id):\n            if not lax:",
      "        if not self.allow_unsolicited and not for_me(conditions, self.entity_id):\n            if not lax:")
patch("c05-recipient-never-checked", ["C05"], "saml2_tophat/response.py",
      "        if not self.conv_info:\n            return True", "        return True")
patch("c05-confirmation-irt-not-compared", ["C05"], "saml2_tophat/response.py",
      "                try:\n                    assert _sc.subject_confirmation_data.in_response_to == irp\n                except AssertionError:\n                    return False",
      "                pass")
patch("c05-regex-matches-any-destination", ["C05"], "saml2_tophat/response.py",
      "                if not does_match:", "                if not does_match and False:")
# ---------------------------------------------------------------- C08
patch("c08-cdata-end-stripped-from-values", ["C08"], "saml2_tophat/attribute_converter.py",
      "            else:\n                val.append(value.text.strip())\n\n        return attr, val",
      "            else:\n                val.append(value.text.strip().replace(']]>', ''))\n\n        return attr, val")
patch("c08-last-value-of-many-dropped", ["C08"], "saml2_tophat/attribute_converter.py",
      "        return attr, val\n\n    def fro(self, statement):",
      "        return attr, (val[:-1] if len(val) > 3 else val)\n\n    def fro(self, statement):")
patch("c08-name-qualifier-lost", ["C08"], "saml2_tophat/response.py",
      "        if subject.name_id:\n            self.name_id = subject.name_id",
      "        if subject.name_id:\n            self.name_id = subject.name_id\n            self.name_id.name_qualifier = None")
# ---------------------------------------------------------------- C10
patch("c10-destination-not-compared", ["C10"], "saml2_tophat/request.py",
      "        if self.message.destination and self.receiver_addrs and \\\n                self.message.destination not in self.receiver_addrs:",
      "        if False:")
patch("c10-issue-instant-not-checked", ["C10"], "saml2_tophat/request.py",
      "        assert self.issue_instant_ok()\n        return self", "        return self")
patch("c10-unsigned-accepted-although-required", ["C10"], "saml2_tophat/entity.py",
      "        must = self.config.getattr(\"want_authn_requests_signed\", \"idp\")", "        must = False")
patch("c10-request-signature-never-verified", ["C10"], "saml2_tophat/sigver.py",
      "        if not msg.signature:\n            if must:", "        if True:\n            if must and not msg.signature:")
patch("c10-issue-instant-window-ignores-direction", ["C10"], "saml2_tophat/request.py",
      "        return issued_at > lower and issued_at < upper", "        return issued_at > lower")
# ---------------------------------------------------------------- C15
patch("c15-shared-signer-again", ["C15"], "saml2_tophat/sigver.py",
      "        return RSASigner(signer.digest, sigkey or self.key)",
      "        signer.key = sigkey or self.key\n        return signer")
patch("c15-relaystate-not-signed", ["C15"], "saml2_tophat/sigver.py",
      "REQ_ORDER = [\n    'SAMLRequest',\n    'RelayState',\n    'SigAlg',\n]", "REQ_ORDER = [\n    'SAMLRequest',\n    'SigAlg',\n]")
patch("c15-verify-ignores-sigalg-param", ["C15"], "saml2_tophat/sigver.py",
      "            _args = saml_msg.copy()\n            del _args['Signature']  # everything but the signature",
      "            _args = saml_msg.copy()\n            del _args['Signature']  # everything but the signature\n            _order = [k for k in _order if k != 'RelayState']")
# ---------------------------------------------------------------- C16
patch("c16-entity-validuntil-ignored", ["C16"], "saml2_tophat/mdstore.py",
      "                if not valid(entity_descr.valid_until):", "                if False:")
patch("c16-document-validuntil-ignored", ["C16"], "saml2_tophat/mdstore.py",
      "                    if not valid(self.entities_descr.valid_until):", "                    if False:")
patch("c16-metadata-signature-not-verified", ["C16"], "saml2_tophat/mdstore.py",
      "            if self.security.verify_signature(\n                    txt, node_name=node_name, cert_file=self.cert):\n                return True",
      "            if True:\n                return True")
patch("c16-later-duplicate-wins", ["C16"], "saml2_tophat/mdstore.py",
      "        if entity_descr.entity_id in self.entity:\n            print(\"Duplicated Entity descriptor (entity id: '%s')\" %\n                  entity_descr.entity_id, file=sys.stderr)\n            return",
      "        if entity_descr.entity_id in self.entity:\n            pass")
patch("c16-binding-filter-dropped", ["C16"], "saml2_tophat/mdstore.py",
      "            for srv in srvs:\n                if srv[\"binding\"] == binding:\n                    res.append(srv)\n        else:\n            res = {}",
      "            for srv in srvs:\n                res.append(srv)\n        else:\n            res = {}")
patch("c16-unknown-vs-unsupported-confused", ["C16"], "saml2_tophat/mdstore.py",
      "        if known_entity:\n            logger.error(\"Unsupported binding: %s (%s)\", binding, entity_id)\n            raise UnsupportedBinding(binding)",
      "        if False:\n            raise UnsupportedBinding(binding)")
# ---------------------------------------------------------------- C17
patch("c17-encrypt-with-signing-cert", ["C17"], "saml2_tophat/entity.py",
      "        elif sp_entity_id is not None:\n            _certs = self.metadata.certs(sp_entity_id, \"any\", \"encryption\")\n        exception = None",
      "        elif sp_entity_id is not None:\n            _certs = self.metadata.certs(sp_entity_id, \"any\", \"signing\")\n        exception = None")
patch("c17-conditions-skipped-for-decrypted", ["C17"], "saml2_tophat/response.py",
      "        if not self.condition_ok():\n            raise VerificationError(\"Condition not OK\")",
      "        if not verified and not self.condition_ok():\n            raise VerificationError(\"Condition not OK\")")
patch("c17-decrypted-signature-not-verified", ["C17"], "saml2_tophat/response.py",
      "                    if assertion.signature and not verified:", "                    if assertion.signature and not verified and False:")
patch("c17-encryption-failure-returns-plaintext", ["C20"], "saml2_tophat/entity.py",
      "        if exception:\n            raise exception\n        return response", "        return response")
patch("c17-second-pass-verified-again", ["C20"], "saml2_tophat/response.py",
      "                    resp.encrypted_assertion, decr_text, verified=_verified)",
      "                    resp.encrypted_assertion, decr_text, verified=True)")
# ---------------------------------------------------------------- C18
patch("c18-empty-entry-left-behind", ["C18"], "saml2_tophat/ident.py",
      "            if vals:\n                self.db[_id] = \" \".join(vals)\n            else:",
      "            if True:\n                self.db[_id] = \" \".join(vals)\n            else:")
patch("c18-no-uniqueness-loop", ["C18"], "saml2_tophat/ident.py",
      "        while _id + suffix in self.db:", "        while False:")
patch("c18-reverse-mapping-not-removed", ["C18"], "saml2_tophat/ident.py",
      "            pass\n\n        del self.db[name_id.text]", "            pass\n")
patch("c18-code-without-quoting", ["C18"], "saml2_tophat/ident.py",
      "            _res.append(\"%d=%s\" % (i, quote(val)))", "            _res.append(\"%d=%s\" % (i, val))")
patch("c18-persistent-ignores-sp-qualifier", ["C18"], "saml2_tophat/ident.py",
      "                if snq and snq == sp_name_qualifier:", "                if snq:")
patch("c18-manage-drops-old-without-storing", ["C18"], "saml2_tophat/ident.py",
      "        self.remove_remote(orig_name_id)\n        self.store(_id, name_id)", "        self.remove_remote(orig_name_id)")
# ---------------------------------------------------------------- C19
patch("c19-expiry-never-checked", ["C19"], "saml2_tophat/cache.py",
      "        if check_not_on_or_after and time_util.after(timestamp):", "        if False:")
patch("c19-expired-sources-merged", ["C19"], "saml2_tophat/cache.py",
      "            except ToOld:\n                oldees.append(entity_id)\n                continue",
      "            except ToOld:\n                oldees.append(entity_id)\n                info = self.get(name_id, entity_id, False)")
patch("c19-keyed-by-text-only", ["C19"], "saml2_tophat/cache.py",
      "        cni = code(name_id)\n        (timestamp, info) = self._db[cni][entity_id]\n        info = info.copy()",
      "        cni = code(name_id)\n        if cni not in self._db:\n            for _k in self._db.keys():\n                if decode(_k).text == name_id.text:\n                    cni = _k\n        (timestamp, info) = self._db[cni][entity_id]\n        info = info.copy()")
patch("c19-expires-one-second-early", ["C19"], "saml2_tophat/time_util.py",
      "    return time.gmtime() <= point", "    return time.gmtime() < point")
patch("c19-reset-keeps-data", ["C19"], "saml2_tophat/cache.py",
      "        self.set(name_id, entity_id, {}, 0)", "        pass")
patch("c19-file-cache-not-synced-on-delete", ["C19"], "saml2_tophat/cache.py",
      "        del self._db[code(name_id)]\n\n        if self._sync:",
      "        if not self._sync:\n            del self._db[code(name_id)]\n        else:\n            self._db[code(name_id)] = {}\n\n        if self._sync:")
# ---------------------------------------------------------------- C20
patch("c20-ok-substring-counts", ["C20"], "saml2_tophat/sigver.py",
      "        if line == 'OK':", "        if 'OK' in line:")
patch("c20-tool-error-counts-as-verified", ["C20"], "saml2_tophat/sigver.py",
      "            except XmlsecError as exc:\n                logger.error('check_sig: %s', exc)\n                pass",
      "            except XmlsecError as exc:\n                logger.error('check_sig: %s', exc)\n                verified = True")
patch("c20-sign-failure-returns-input", ["C20"], "saml2_tophat/sigver.py",
      "            logger.error('Signing operation failed :\\nstdout : %s\\nstderr : %s', stdout, stderr)\n            raise SigverError(stderr)",
      "            logger.error('Signing operation failed :\\nstdout : %s\\nstderr : %s', stdout, stderr)\n            return statement")
# (two earlier entries - "output not validated when exit code is 0" and "stdout also searched in validate_signature" -
# turned out to be equivalent mutants: the verdict is parsed twice, in _run_xmlsec and in validate_signature)
patch("c20-stdout-also-searched-everywhere", ["C20"], "saml2_tophat/sigver.py",
      [("        return parse_xmlsec_output(stderr)", "        return parse_xmlsec_output(stderr + '\\n' + _stdout)"),
       ("                    parse_xmlsec_output(p_err)", "                    parse_xmlsec_output(p_err + '\\n' + p_out)")], None)
patch("c20-positive-exit-code-is-success", ["C20"], "saml2_tophat/sigver.py",
      [("        return parse_xmlsec_output(stderr)", "        return True"),
       ("                    parse_xmlsec_output(p_err)", "                    assert pof.returncode is not None")], None)
# ("decrypt_keys returns the last (empty) attempt instead of the input" was tried and is harmless: an empty document
# cannot be parsed, the response is rejected)


def one(p):
    """Apply one patch to a scratch copy and run the quick checks of the properties it names."""
    tmp = tempfile.mkdtemp(prefix="verif-mut-")
    try:
        dst = os.path.join(tmp, "src")
        shutil.copytree(SRC, dst, ignore=shutil.ignore_patterns("__pycache__", "*.pyc", "*.egg-info"))
        f = os.path.join(dst, p["file"])
        s = open(f).read()
        pairs = p["old"] if isinstance(p["old"], list) else [(p["old"], p["new"])]
        bad = [o for o, _ in pairs if s.count(o) != 1]
        if bad:
            print("%-55s PATCH-DOES-NOT-APPLY" % p["id"])
            return {"id": p["id"], "error": "patch does not apply (%r)" % bad[0][:60]}
        for o, n in pairs:
            s = s.replace(o, n)
        open(f, "w").write(s)
        row = {"id": p["id"], "note": p["note"], "caught_by": [], "missed_by": [], "rules": {}}
        for prop in p["props"]:
            t0 = time.time()
            env = dict(os.environ, VERIF_OUT=tmp, VERIF_REPO_SRC=dst, VERIF_NO_DET="1", PYTHONHASHSEED="0", PYTHONWARNINGS="ignore")
            pr = subprocess.run([os.path.join(VERIF, "bin", "check"), prop, "--tier", "quick"],
                                capture_output=True, text=True, env=env, timeout=1800)
            viol = [l for l in pr.stdout.splitlines() if l.startswith("VIOLATION")]
            rules = [l.strip().split(" ")[0] for l in pr.stdout.splitlines() if l.strip().startswith("rule=")]
            if pr.returncode == 1 and viol:
                row["caught_by"].append(prop)
            else:
                row["missed_by"].append(prop)
                row.setdefault("tail", {})[prop] = pr.stdout[-400:] + pr.stderr[-400:]
            row["rules"][prop] = rules[:4]
            row.setdefault("wall", {})[prop] = round(time.time() - t0, 1)
        print("%-55s caught=%s missed=%s %s" % (p["id"], row["caught_by"], row["missed_by"], row["rules"]))
        sys.stdout.flush()
        return row
    finally:
        # replay files written for the mutant are not evidence about the real tree
        shutil.rmtree(tmp, ignore_errors=True)


def run(selected, par=1):
    import concurrent.futures as cf
    todo = [p for p in P if not selected or p["id"] in selected]
    with cf.ThreadPoolExecutor(max_workers=par) as ex:
        return list(ex.map(one, todo))


if __name__ == "__main__":
    par = max([int(a[2:]) for a in sys.argv[1:] if a.startswith("-j")] or [1])
    sel = set(a for a in sys.argv[1:] if not a.startswith("-j"))
    res = run(sel, par)
    out = os.path.join(VERIF, "selftest", "sensitivity_results.json")
    if not sel:
        json.dump({"results": res, "caught": sum(1 for r in res if r.get("caught_by") and not r.get("missed_by")),
                   "total": len(res)}, open(out, "w"), indent=1)
    missed = [r["id"] for r in res if r.get("missed_by") or r.get("error")]
    print("patches=%d fully-caught=%d missed-or-error=%s" % (len(res), len(res) - len(missed), missed))
