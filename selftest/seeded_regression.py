#!/venv/bin/python
"""Regression over the independently seeded changes kept under /verif/seeded: every breaking change
(seeded/C??-*/patch.diff) must still make the quick check of its property report a violation, and every
property-preserving refactoring (seeded/benign-*/patch.diff) must leave the listed checks green.  Each patch
is applied to a scratch copy of /repo/src (VERIF_REPO_SRC); /repo itself is never touched.

usage: seeded_regression.py [id-prefix ...]   -> selftest/seeded_regression_results.json ; exit 1 on a miss / alarm
"""
import json
import os
import re
import shutil
import subprocess
import sys
import tempfile

VERIF = os.path.dirname(os.path.dirname(os.path.abspath(__file__)))
BENIGN_PROPS = {"cache": ["C19"], "ident": ["C18"], "mdstore": ["C16"], "request": ["C10", "C03"], "redirect": ["C15"],
                "response": ["C04", "C05", "C17", "C08"], "entity": ["C02", "C08", "C17", "C20", "C05"],
                "sigver": ["C02", "C03", "C20", "C17", "C10", "C08"], "policy": ["C08", "C17", "C02"],
                "timeutil": ["C04", "C19", "C10", "C05"], "advice": ["C17", "C20", "C02", "C05", "C08"],
                "parse": ["C20", "C17", "C02", "C05", "C03"], "config": ["C02", "C05", "C10"], "redirectsig": ["C15"],
                "nameid": ["C18"], "mdquery": ["C16"],
                "cache2": ["C19"], "mdload": ["C16"], "soap": ["C10", "C03", "C15", "C08"], "ecpolicy": ["C08", "C17"],
                "validate": ["C05", "C10", "C04", "C17"], "producer": ["C08", "C17", "C20", "C02"], "ident2": ["C18"],
                "client": ["C02", "C05", "C08", "C04"],
                "sutils": ["C18", "C10", "C04", "C19", "C15"], "config2": ["C02", "C05", "C10", "C16"],
                "parse2": ["C17", "C20", "C02", "C05"], "convert": ["C08", "C17"]}


def run_check(prop, src, out):
    env = dict(os.environ, VERIF_REPO_SRC=src, VERIF_OUT=out, VERIF_NO_DET="1")
    pr = subprocess.run([os.path.join(VERIF, "bin", "check"), prop, "--tier", "quick"], capture_output=True, text=True,
                        env=env, timeout=1800)
    lines = [l for l in pr.stdout.splitlines() if l.startswith(("OK", "VIOLATION", "HARNESS", "  rule="))]
    return pr.returncode, lines


def main():
    import concurrent.futures as cf
    want = [a for a in sys.argv[1:] if not a.startswith("-j")]
    par = max([int(a[2:]) for a in sys.argv[1:] if a.startswith("-j")] or [1])
    names = sorted(os.listdir(os.path.join(VERIF, "seeded")))
    names = [n for n in names if os.path.isfile(os.path.join(VERIF, "seeded", n, "patch.diff"))
             and (not want or any(n.startswith(w) for w in want))]
    res = {}
    with cf.ThreadPoolExecutor(max_workers=par) as ex:
        for name, r in zip(names, ex.map(one, names)):
            res[name] = r
            print(name, json.dumps(r)[:300], flush=True)
    bad = sum(1 for v in res.values() if v.get("error") or (v.get("kind") == "breaking" and not v.get("caught"))
              or (v.get("kind") in ("benign", "neutralised", "known-miss") and not v.get("ok")))
    finish(res, want, bad)


def one(name):
    res = {}
    bad = 0
    for name in [name]:
        d = os.path.join(VERIF, "seeded", name)
        if not os.path.isfile(os.path.join(d, "patch.diff")):
            continue
        tmp = tempfile.mkdtemp(prefix="verif-sreg-")
        try:
            shutil.copytree("/repo/src", os.path.join(tmp, "tree", "src"))
            pr = subprocess.run(["patch", "-s", "-p1", "-i", os.path.join(d, "patch.diff")], cwd=os.path.join(tmp, "tree"),
                                capture_output=True, text=True)
            if pr.returncode != 0:
                res[name] = {"error": "patch does not apply: " + pr.stdout[-300:]}
                bad += 1
                continue
            src = os.path.join(tmp, "tree", "src")
            if name.startswith("benign-"):
                props = BENIGN_PROPS.get(name[len("benign-"):], [])
                r = {}
                for p in props:
                    rc, lines = run_check(p, src, os.path.join(tmp, "out"))
                    r[p] = {"exit": rc, "tail": lines[-2:]}
                    if rc != 0:
                        bad += 1
                res[name] = {"kind": "benign", "checks": r, "ok": all(v["exit"] == 0 for v in r.values())}
            else:
                prop = re.match(r"(C\d\d)-", name).group(1)
                rc, lines = run_check(prop, src, os.path.join(tmp, "out"))
                rules = sorted(set(m.group(1) for l in lines for m in [re.search(r"rule=(\S+)", l)] if m))
                meta_ = json.load(open(os.path.join(d, "meta.json")))
                if meta_.get("known_miss"):
                    # a change the checks are known not to catch (the configuration / flow it needs is not simulated:
                    # DESIGN.md sections 9 and 14); reported as such, whatever the check says
                    res[name] = {"kind": "known-miss", "property": prop, "exit": rc, "caught": rc == 1, "rules": rules[:6],
                                 "ok": rc in (0, 1)}
                    continue
                neut = meta_.get("neutralised_by_fix")
                if neut:
                    # a later "fix:" commit in /repo removed the weakness this change exploited: its demonstration
                    # passes on the current tree, so the check is expected to stay green (an alarm is not an error)
                    res[name] = {"kind": "neutralised", "property": prop, "exit": rc, "by": neut.get("commit"),
                                 "ok": rc in (0, 1), "rules": rules[:6]}
                    continue
                seeds = [int(m.group(1)) % 1000000 for l in lines for m in [re.search(r"seed=(\d+)", l)] if m]
                runs = [int(m.group(1)) for l in lines for m in [re.search(r"runs=(\d+)", l)] if m]
                res[name] = {"kind": "breaking", "property": prop, "exit": rc, "caught": rc == 1, "rules": rules[:6],
                             "first_seed_offset": min(seeds) if seeds else None}
                if rc != 1:
                    bad += 1
        finally:
            shutil.rmtree(tmp, ignore_errors=True)
    return res.get(name, {"error": "skipped"})


def finish(res, want, bad):
    path = os.path.join(VERIF, "selftest", "seeded_regression_results.json")
    if want and os.path.exists(path):
        old = json.load(open(path))
        old.update(res)
        res = old
    with open(path, "w") as f:
        json.dump(res, f, indent=1, sort_keys=True)
    n_b = sum(1 for v in res.values() if v.get("kind") == "breaking")
    print("breaking=%d caught=%d known-miss=%d neutralised-by-fix=%d benign=%d green=%d bad=%d" % (
        n_b, sum(1 for v in res.values() if v.get("caught") and v.get("kind") == "breaking"),
        sum(1 for v in res.values() if v.get("kind") == "known-miss"),
        sum(1 for v in res.values() if v.get("kind") == "neutralised"),
        sum(1 for v in res.values() if v.get("kind") == "benign"),
        sum(1 for v in res.values() if v.get("kind") == "benign" and v.get("ok")), bad))
    sys.exit(1 if bad else 0)


if __name__ == "__main__":
    main()
