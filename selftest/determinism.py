#!/venv/bin/python
"""Determinism self-test: N seeds per property, each executed in three separate fresh
interpreters - PYTHONHASHSEED 0 in order, PYTHONHASHSEED 1 in reverse order (catches state
leaking from one run into the next: caches, module globals), PYTHONHASHSEED 2 split over
several processes - and the digests of everything observable are compared.

usage: determinism.py [N] [PROP ...]   -> selftest/determinism_results.json ; exit 3 on mismatch
"""
import concurrent.futures as cf
import json
import os
import subprocess
import sys

VERIF = os.path.dirname(os.path.dirname(os.path.abspath(__file__)))
PROPS = ["C02", "C03", "C04", "C05", "C08", "C10", "C15", "C16", "C17", "C18", "C19", "C20"]


def digests(prop, seeds, hashseed, tier="quick"):
    env = dict(os.environ, PYTHONHASHSEED=str(hashseed), PYTHONWARNINGS="ignore")
    pr = subprocess.run([os.path.join(VERIF, "bin", "check"), prop, "--digests", ",".join(map(str, seeds)), "--tier", tier],
                        capture_output=True, text=True, env=env, timeout=3600)
    try:
        return json.loads(pr.stdout.strip().splitlines()[-1])
    except Exception:
        return {"error": pr.stderr[-800:]}


def main():
    args = sys.argv[1:]
    n = int(args[0]) if args and args[0].isdigit() else 64
    props = [a for a in args if not a.isdigit()] or PROPS
    out = {}
    bad = 0
    with cf.ThreadPoolExecutor(max_workers=8) as ex:
        futs = {}
        for p in props:
            seeds = [7000000 + 13 * i for i in range(n)]
            futs[(p, "a")] = ex.submit(digests, p, seeds, 0)
            futs[(p, "b")] = ex.submit(digests, p, list(reversed(seeds)), 1)
            k = max(1, n // 4)
            for j in range(0, n, k):
                futs[(p, "c%d" % j)] = ex.submit(digests, p, seeds[j:j + k], 2)
        res = {k: f.result() for k, f in futs.items()}
    for p in props:
        a, b = res[(p, "a")], res[(p, "b")]
        c = {}
        for k, v in res.items():
            if k[0] == p and k[1].startswith("c"):
                c.update(v)
        mism = [s for s in a if a.get(s) != b.get(s) or a.get(s) != c.get(s)]
        if "error" in a or "error" in b or "error" in c:
            mism.append("error")
        out[p] = {"seeds": n, "mismatch": mism, "error": [x.get("error") for x in (a, b, c) if "error" in x][:1]}
        bad += len(mism)
        print("%s seeds=%d mismatches=%d %s" % (p, n, len(mism), mism[:5]))
    json.dump(out, open(os.path.join(VERIF, "selftest", "determinism_results.json"), "w"), indent=1)
    sys.exit(3 if bad else 0)


if __name__ == "__main__":
    main()
