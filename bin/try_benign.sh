#!/bin/bash
# usage: try_benign.sh <name> <worktree> <PROP> [<PROP> ...]
# Applies a property-preserving refactoring (benign/patch.diff of the worktree, kept under /verif/seeded/benign-<name>/)
# to a scratch copy of /repo/src and runs the given quick checks against it: every one must stay green.
set -u
NAME=$1; WT=$2; shift 2
DEST=/verif/seeded/benign-$NAME
mkdir -p $DEST
[ -f $WT/benign/patch.diff ] && cp $WT/benign/patch.diff $WT/benign/notes.md $DEST/ 2>/dev/null
OUT=$(mktemp -d /tmp/verif-benign-XXXX)
mkdir -p $OUT/tree && cp -r /repo/src $OUT/tree/src && ( cd $OUT/tree && patch -s -p1 < $DEST/patch.diff ) || { echo "patch does not apply"; rm -rf $OUT; exit 2; }
: > $DEST/check_results.txt
for P in "$@"; do
  cd /verif && env VERIF_REPO_SRC=$OUT/tree/src VERIF_OUT=$OUT VERIF_NO_DET=1 timeout 900 bin/check $P --tier quick 2>&1 | grep -v "Duplicated\|Warn\|cfb" | tail -5 | sed "s/^/[$P] /" | tee -a $DEST/check_results.txt
  cp $OUT/replays/*.json $DEST/ 2>/dev/null
done
rm -rf $OUT
