#!/venv/bin/python
"""Run the repository's pinned test command and compare with /root/.vp/BASELINE.json (stable_pass)."""
import json, os, subprocess, sys, tempfile
import xml.etree.ElementTree as ET
out = tempfile.mktemp(suffix=".junit.xml")
subprocess.run("cd /repo && /venv/bin/python -m pytest -ra -q -p no:cacheprovider --timeout=900 "
               "--continue-on-collection-errors --junitxml=%s >/dev/null 2>&1" % out, shell=True)
base = json.load(open("/root/.vp/BASELINE.json"))
passed = set()
for tc in ET.parse(out).getroot().iter("testcase"):
    if not any(ch.tag in ("failure", "error", "skipped") for ch in tc):
        passed.add("%s::%s" % (tc.get("classname"), tc.get("name")))
os.unlink(out)
missing = [t for t in base["stable_pass"] if t not in passed]
print("baseline stable_pass=%d passed_now=%d missing=%d" % (len(base["stable_pass"]), len(passed), len(missing)))
for m in missing[:20]:
    print("  MISSING", m)
sys.exit(1 if missing else 0)
