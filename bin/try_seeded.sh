#!/bin/bash
# usage: try_seeded.sh <seeded-id> <PROP> [worktree]
# 1. (if a worktree is given) confirm the demonstration: FAIL with the change, PASS without; copy to /verif/seeded/<id>/
# 2. apply the patch to a scratch copy of /repo/src (so that concurrently running checks of the real
#    tree are not disturbed; equivalent to `git -C /repo apply` + check + `git -C /repo checkout -- .`,
#    which is what `try_seeded.sh --in-repo` does), run the property's quick check with outputs
#    redirected to a temp dir, remove the copy.
set -u
INREPO=0; if [ "$1" = "--in-repo" ]; then INREPO=1; shift; fi
ID=$1; PROP=$2; WT=${3:-}
DEST=/verif/seeded/$ID
if [ -n "$WT" ]; then
  mkdir -p $DEST
  ( cd $WT && git apply -R seeded/patch.diff 2>/dev/null; git apply seeded/patch.diff ) || { echo "patch does not apply in worktree"; exit 2; }
  ( cd $WT && PYTHONPATH=$WT/src /venv/bin/python seeded/demo.py >/tmp/demo_changed.txt 2>&1; echo $? > /tmp/demo_changed.rc )
  ( cd $WT && git apply -R seeded/patch.diff && PYTHONPATH=$WT/src /venv/bin/python seeded/demo.py >/tmp/demo_orig.txt 2>&1; echo $? > /tmp/demo_orig.rc; git apply seeded/patch.diff )
  echo "demo: changed rc=$(cat /tmp/demo_changed.rc) ($(tail -1 /tmp/demo_changed.txt)) original rc=$(cat /tmp/demo_orig.rc) ($(tail -1 /tmp/demo_orig.txt))"
  cp $WT/seeded/patch.diff $WT/seeded/demo.py $WT/seeded/meta.json $DEST/ 2>/dev/null
fi
OUT=$(mktemp -d /tmp/verif-seeded-XXXX)
if [ $INREPO = 1 ]; then
  cd /repo && git diff --quiet -- src || { echo "/repo has local changes, refusing"; exit 2; }
  git -C /repo apply $DEST/patch.diff || { echo "patch does not apply to /repo"; exit 2; }
  SRCENV=""
else
  mkdir -p $OUT/tree && cp -r /repo/src $OUT/tree/src && ( cd $OUT/tree && patch -s -p1 < $DEST/patch.diff ) || { echo "patch does not apply to the scratch copy"; rm -rf $OUT; exit 2; }
  SRCENV="VERIF_REPO_SRC=$OUT/tree/src"
fi
cd /verif && env $SRCENV VERIF_OUT=$OUT VERIF_NO_DET=1 timeout 900 bin/check $PROP --tier quick 2>&1 | grep -v "Duplicated\|Warn\|cfb" | tail -6 | tee $OUT/result.txt
if [ $INREPO = 1 ]; then git -C /repo checkout -- . ; fi
cp $OUT/result.txt $DEST/check_result_$PROP.txt 2>/dev/null
rm -rf $OUT
git -C /repo status --short | grep -v '^??' | head -3
