#!/venv/bin/python
"""setup_cmd: nothing is built or downloaded (pure Python); verify the interpreter has what
the simulator needs and that the package imports from /repo/src's working tree."""
import sys, os
sys.path.insert(0, os.path.dirname(os.path.dirname(os.path.abspath(__file__))))
import cryptography, defusedxml  # noqa
from simcore import seams
r = seams.bootstrap()
assert any(x.endswith("sigver.Popen") for x in r), r
assert os.path.exists(seams.FAKE_BIN)
os.makedirs(os.path.join(seams.VERIF, "evidence"), exist_ok=True)
os.makedirs(os.path.join(seams.VERIF, "replays"), exist_ok=True)
print("setup ok: saml2_tophat from", seams.REPO_SRC, "seams:", len(r))
