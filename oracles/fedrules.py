"""Oracles of engine F.  Everything here is computed from ground truth the harness owns: the
delivered bytes re-read with simcore.wire, the generator's node specs (metadata views), the
receiving node's simulated clock, what the sending node was asked to assert, and the healthy
answers of the stub tool.  pysaml2 is never asked for the expected answer.

A rule *hit* is (property, rule, detail).  `must_reject` hits turn into violations when the
delivery was accepted; `accept_required` turns into a violation when a fault-free, comfortably
valid delivery was rejected.  Every violation names the property it belongs to; a check only
alarms on its own property (DESIGN.md section 7).
"""
import xml.etree.ElementTree as ET

from simcore import wire, simxmlsec
from simcore.world import key_file
from engines import fed

SUCCESS = "urn:oasis:names:tc:SAML:2.0:status:Success"
BEARER = "urn:oasis:names:tc:SAML:2.0:cm:bearer"
TIME_EXC = ("ResponseLifetimeExceed", "ToEarly", "AssertionError")

_PRIVS = {}


def fixture_priv(i):
    if i not in _PRIVS:
        with open(key_file(i), "rb") as f:
            _PRIVS[i] = simxmlsec.load_private_key(f.read())
    return _PRIVS[i]


def ground_decrypt(xml, enc_keys, limit=4):
    """Decrypt every EncryptedData the given fixture keys can open (ground truth, stub crypto).
    -> (xml after decryption, number decrypted, list of key labels that worked)"""
    n = 0
    used = []
    stages = [xml]
    for _ in range(limit):
        progressed = False
        for k in enc_keys:
            try:
                out, _plain = simxmlsec.decrypt_document(xml, fixture_priv(k))
            except simxmlsec.ToolError:
                continue
            xml = out
            stages.append(xml)
            n += 1
            used.append("k%d" % k)
            progressed = True
            break
        if not progressed:
            break
    return xml, n, used, stages


def effective_view(xml, enc_keys):
    """The response as the receiving SP can see it after decrypting what its keys open."""
    full, ndec, used, stages = ground_decrypt(xml, enc_keys) if enc_keys else (xml, 0, [], [xml])
    root = ET.fromstring(full)
    eff = []
    for a in root.findall(wire.q(wire.SAML, "Assertion")):
        d = wire.read_assertion(a)
        d["enc"] = False
        eff.append(d)
    undec = 0
    for ea in root.findall(wire.q(wire.SAML, "EncryptedAssertion")):
        inner = ea.findall(wire.q(wire.SAML, "Assertion"))
        for a in inner:
            d = wire.read_assertion(a)
            d["enc"] = True
            eff.append(d)
        if ea.find(wire.q(wire.XENC, "EncryptedData")) is not None:
            undec += 1
    return full, eff, undec, used, stages


def add(sim, rec, prop, rule, detail, kind="violation"):
    v = {"prop": prop, "rule": rule, "detail": detail, "i": rec.get("i"), "kind": kind}
    sim.violations.append(v)
    rec.setdefault("violations", []).append({"prop": prop, "rule": rule})


def judge(sim, ev, rec):
    k = rec["k"]
    if k == "resp":
        judge_resp(sim, ev, rec)
    elif k in ("answer", "unsol"):
        judge_answer(sim, ev, rec)
    elif k == "aq_answer":
        if not rec.get("error") and (rec.get("p") or {}).get("encrypt"):
            # an attribute authority asked to encrypt: the same producer-side rules as for a login answer
            judge_answer(sim, ev, rec)
        elif rec.get("error") and not ev.get("tf"):
            if rec.get("refusal_expected"):
                sim.count("probe.refused-required-attribute-missing")
            elif rec.get("benign_ok"):
                sim.count("oracle.C08.content-made-provider-fail")
                add(sim, rec, "C08", "content-made-provider-fail", "%s: %s (the same call succeeds with bland content)" % (
                    rec.get("error"), rec.get("error_msg")))
            else:
                sim.count("probe.provider-failed-independent-of-content." + str(rec.get("error")))
    elif k == "req":
        judge_req(sim, ev, rec)
    elif k == "slo":
        # C20: a logout the client reports as done rests on an answer it really judged: when the IdP signed its
        # LogoutResponse, the SP's tool must have genuinely verified it
        if rec.get("returned") and rec.get("exchanges") and rec.get("sign_answer"):
            genuine = [t for t in rec.get("tool") or [] if t.get("op") == "verify" and t.get("node") == rec["sp"]
                       and t.get("genuine_ok")]
            sim.count("oracle.C20.logout-judged")
            if not genuine:
                add(sim, rec, "C20", "logout-confirmed-without-genuine-verify",
                    "tool=%s" % [(t.get("node"), t.get("op"), t.get("fault"), t.get("healthy_ok")) for t in rec.get("tool") or []])


# ------------------------------------------------------------------------------------- time

def time_hits(eff, resp_issue_instant, now, slack):
    """-> (hits, comfortable, unspecified)  hits = [(rule, detail, enc)]"""
    hits = []
    comfortable = True
    unspec = False

    def nooa(kind, s, enc):
        nonlocal comfortable, unspec
        if s is None:
            return
        if wire.has_offset(s):
            comfortable = False     # the library refuses offset spellings: acceptance is not demanded
        b = wire.ts_epoch(s)
        if b is None:
            unspec = True
            comfortable = False
            return
        if now > b + slack:
            hits.append(("expired." + kind, "now=%d bound=%d slack=%d" % (now, b, slack), enc))
        if not (now + slack + 1 < b):
            comfortable = False

    def nb(kind, s, enc):
        nonlocal comfortable, unspec
        if s is None:
            return
        if wire.has_offset(s):
            comfortable = False
        b = wire.ts_epoch(s)
        if b is None:
            unspec = True
            comfortable = False
            return
        if b > now + slack:
            hits.append(("early." + kind, "now=%d bound=%d slack=%d" % (now, b, slack), enc))
        if not (b + slack + 1 < now):
            comfortable = False

    def order(kind, snb, snooa, enc):
        nonlocal comfortable
        a, b = wire.ts_epoch(snb), wire.ts_epoch(snooa)
        if a is not None and b is not None:
            if a > b:
                hits.append(("inverted." + kind, "nb=%d nooa=%d" % (a, b), enc))
            if a >= b:
                comfortable = False

    for a in eff:
        c = a["conditions"]
        if c:
            nooa("conditions", c["not_on_or_after"], a["enc"])
            nb("conditions", c["not_before"], a["enc"])
            order("conditions", c["not_before"], c["not_on_or_after"], a["enc"])
        if a["subject"]:
            for sc in a["subject"]["confirmations"]:
                if sc["method"] == BEARER and sc["data"]:
                    nooa("bearer", sc["data"]["not_on_or_after"], a["enc"])
                    nb("bearer", sc["data"]["not_before"], a["enc"])
                    order("bearer", sc["data"]["not_before"], sc["data"]["not_on_or_after"], a["enc"])
                    if sc["data"]["not_on_or_after"] is None or sc["data"]["not_before"] is not None:
                        comfortable = False     # not the web-SSO profile shape
        # (every AuthnStatement's SessionNotOnOrAfter is a bound of the assertion; an assertion with several
        # statements is not the web-SSO profile shape - this code base refuses it - so acceptance is not demanded)
        for st_ in a["authn"] or []:
            nooa("session", st_["session_not_on_or_after"], a["enc"])
        if len(a["authn"] or []) > 1:
            comfortable = False
    ii = wire.ts_epoch(resp_issue_instant)
    if wire.has_offset(resp_issue_instant):
        comfortable = False
    if ii is None:
        unspec = True
        comfortable = False
    else:
        if abs(now - ii) > 86400 + slack:
            hits.append(("issue-instant", "now=%d issued=%d slack=%d" % (now, ii, slack), False))
        if not (abs(now - ii) + 1 < 86400):
            comfortable = False
    return hits, comfortable, unspec


def _session_expiry_of(a):
    if a["authn"] and a["authn"][0]["session_not_on_or_after"]:
        return wire.ts_epoch(a["authn"][0]["session_not_on_or_after"])
    if a["conditions"] and a["conditions"]["not_on_or_after"]:
        return wire.ts_epoch(a["conditions"]["not_on_or_after"])
    return None


def expected_session_expiry(eff):
    if not eff:
        return None
    return _session_expiry_of(eff[0])


def acceptable_session_expiries(eff):
    """With several assertions in one response the statement does not say whose expiry "the" session expiry is:
    any one of theirs will do (with a single assertion this is the one value of expected_session_expiry)."""
    return [x for x in (_session_expiry_of(a) for a in eff) if x is not None]


# ------------------------------------------------------------------------------------- responses

def judge_resp(sim, ev, rec):
    from engines.fedsim import signature_truth, embedded_cert_label, RESP_NODE, ASSERT_NODE, decode_value
    sp = sim.nodes[rec["to"]]
    spec = sp.spec
    out = rec["out"]
    accepted = out["accepted"]
    hits = []          # (prop, rule, detail, enc)
    F = {}
    rec["facts"] = F
    slack = spec.get("slack") or 0
    now = rec["now"]
    browser = rec["via_binding"] in ("post", "redirect", "artifact")

    try:
        xml = decode_value(rec["value"], rec["via_binding"])
        m = wire.read_message(xml)
    except Exception as e:
        F["undecodable"] = type(e).__name__
        if accepted:
            add(sim, rec, "SANITY", "undecodable-accepted", F["undecodable"])
        return
    if m["ns"] != wire.SAMLP or m["type"] != "Response":
        F["not_response"] = m["type"]
        if accepted:
            add(sim, rec, "SANITY", "non-response-accepted", m["type"])
        return
    try:
        # (the SP's configured key pairs, plus the private keys it holds for this very request when it sent a
        # certificate of its own along with it)
        full, eff, undec, dec_used, stages = effective_view(xml, list(spec.get("enc_keys") or []) + list(rec.get("req_keys") or []))
    except Exception as e:
        F["effective_error"] = type(e).__name__
        return
    F.update({"status": m["status"], "resp_signed": m["signed"], "n_eff": len(eff), "undecryptable": undec,
              "enc": [a["enc"] for a in eff], "assert_signed": [a["signed"] for a in eff],
              "irt": m["in_response_to"], "dest": m["destination"], "issuer": m["issuer"]})
    any_enc = any(a["enc"] for a in eff) or undec > 0 or bool(m["encrypted"])
    F["any_enc"] = any_enc

    # ---------------- status (internal sanity, C06 is not claimed)
    if m["status"] != SUCCESS:
        if accepted:
            add(sim, rec, "SANITY", "non-success-accepted", str(m["status"]))
        return
    if m["version"] != "2.0":
        return

    # ---------------- signatures: C02 / C03 / C20
    asked = rec.get("asked") or {}
    only_md = spec.get("only_md_keys")
    only_md = True if only_md is None else bool(only_md)
    sig_elems = []
    if m["signed"]:
        sig_elems.append(("response", RESP_NODE, m["id"], m["issuer"], False))
    for a in eff:
        if a["signed"]:
            sig_elems.append(("assertion", ASSERT_NODE, a["id"], a["issuer"] or m["issuer"], a["enc"]))
    # assertions carried in the Advice of an effective assertion (plain, or encrypted for this SP): what they
    # say enters the identity the application reads, so a signature on one is a present signature too
    try:
        for adv in ET.fromstring(full).iter(wire.q(wire.SAML, "Advice")):
            for sub in adv.iter(wire.q(wire.SAML, "Assertion")):
                d_ = wire.read_assertion(sub)
                # (only when the application actually reads something of it: an advice assertion that the SP
                # could not open or ignored is not part of the identity)
                read_vals = set(v for vals in (out.get("ava") or {}).values() for v in vals if isinstance(v, str))
                used = any((v or "").strip() in read_vals for x in d_["attrs"] for v in x["values"] if v and len(v) >= 8)
                # (for a refused delivery every signed advice assertion is looked at: a bad one is a good
                # reason for the refusal)
                if d_["signed"] and d_["id"] and (used or not accepted):
                    sig_elems.append(("advice-assertion", ASSERT_NODE, d_["id"], d_["issuer"] or m["issuer"], True))
                    sim.count("probe.signed-advice-assertion")
    except ET.ParseError:
        pass
    F["sigs"] = []
    all_sigs_fine = True
    for (what, node, ident, issuer, enc) in sig_elems:
        K = sp.md_certs_for(issuer, "signing") if issuer else None
        doc = xml if what == "response" else full
        emb = embedded_cert_label(doc, "{%s}%s" % tuple(node.rsplit(":", 1)), ident)
        cands = set(K or [])
        if asked.get("signing_key"):
            cands.add(asked["signing_key"])
        if emb and emb.startswith("k"):
            cands.add(emb)
        if what == "response":
            valid_under = signature_truth(doc, node, ident, cands)
        else:
            # an assertion is signed before the layers inside it are opened and after the layers
            # around it are: valid if it verifies at some stage of the decryption
            vu = set()
            for st in stages:
                vu.update(signature_truth(st, node, ident, cands))
            valid_under = sorted(vu)
        crypt_ok = bool(valid_under)
        trusted = bool(set(valid_under) & set(K or []))
        F["sigs"].append({"what": what, "valid_under": valid_under, "K": K, "embedded": emb, "enc": enc})
        if not crypt_ok:
            all_sigs_fine = False
            hits.append(("C02", "invalid-signature." + what, "id=%s K=%s" % (ident, K), enc))
        elif not trusted:
            all_sigs_fine = False
            if only_md or K:
                hits.append(("C03", "untrusted-key." + what,
                             "valid_under=%s K=%s only_md=%s" % (valid_under, K, only_md), enc))
                # for the SP such a signature does not verify either: C02's "every signature that is present
                # verifies" is about the keys the SP may use, not about some key that happens to fit
                hits.append(("C02", "untrusted-key." + what,
                             "valid_under=%s K=%s only_md=%s" % (valid_under, K, only_md), enc))
            elif emb not in valid_under:
                hits.append(("C03", "embedded-mismatch." + what,
                             "valid_under=%s embedded=%s" % (valid_under, emb), enc))
            else:
                F.setdefault("embedded_trusted", []).append(what)
        # C20: a genuine tool success for this element under a trusted certificate
        # (matched on what the verification actually covered, not on how the tool was invoked)
        genuine = [t for t in rec["tool"] if t.get("op") == "verify" and t.get("genuine_ok")
                   and (t.get("node_id") == ident or ident in (t.get("covers") or []))]
        if not genuine:
            hits.append(("C20", "no-genuine-verify." + what, "id=%s tool=%s" % (
                ident, [(t.get("op"), t.get("fault"), t.get("healthy_ok")) for t in rec["tool"]]), enc))
    eff_flags = fed.effective_flags(spec)
    wrs, was, waors = eff_flags["wrs"], eff_flags["was"], eff_flags["waors"]
    if rec.get("msgkind") == "attribute_response":
        wrs = was = waors = False       # the three options are documented for authentication responses
    a_signed_all = bool(eff) and all(a["signed"] for a in eff)
    if wrs and not m["signed"]:
        hits.append(("C02", "required-missing.response", "", False))
    if was and not a_signed_all:
        hits.append(("C02", "required-missing.assertion", "", any_enc))
    if waors and not (m["signed"] or a_signed_all):
        hits.append(("C02", "required-missing.either", "", any_enc))

    # ---------------- C17 / C20: undecryptable content, decrypt tool faults
    if any(a["enc"] for a in eff):
        gen_dec = [t for t in rec["tool"] if t.get("op") == "decrypt" and t.get("genuine_ok")]
        if not gen_dec:
            hits.append(("C20", "no-genuine-decrypt", "", True))
        # one layer of encryption, nothing nested: the library's last word on the ciphertext must not be a tool
        # failure (an identity must not survive from an earlier pass whose result it went on to re-examine)
        decs = [t for t in rec["tool"] if t.get("op") == "decrypt"]
        if len(stages) == 2 and len(m["encrypted"]) == 1 and not m["assertions"] and decs and decs[-1].get("fault") \
                and not decs[-1].get("genuine_ok"):
            hits.append(("C20", "identity-after-final-decrypt-failure", "tool=%s" % [
                (t.get("op"), t.get("fault"), t.get("genuine_ok")) for t in rec["tool"]], True))
    if m["encrypted"] and not eff:
        hits.append(("C17", "undecryptable", "undec=%d" % undec, True))

    # ---------------- C04: time
    thits, comfortable, tunspec = time_hits(eff, m["issue_instant"], now, slack)
    for rule, detail, enc in thits:
        hits.append(("C04", rule, detail, enc))
    F["time_comfortable"] = comfortable

    # ---------------- C05: addressing and solicitation
    allow_unsol = eff_flags["allow_unsolicited"]
    addr_ok = True
    irt = m["in_response_to"]
    outstanding = rec["outstanding"]
    if browser:
        if not allow_unsol:
            if irt not in outstanding:
                hits.append(("C05", "unsolicited", "irt=%s outstanding=%d" % (irt, len(outstanding)), any_enc))
        for a in eff:
            if not a["subject"]:
                continue
            for sc in a["subject"]["confirmations"]:
                if sc["method"] == BEARER and sc["data"]:
                    sirt = sc["data"]["in_response_to"]
                    if sirt is None:
                        addr_ok = False      # code is stricter than the statement here: unspecified
                    elif not allow_unsol and sirt != irt:
                        hits.append(("C05", "confirmation-other-request", "scd=%s resp=%s" % (sirt, irt), a["enc"]))
                    elif allow_unsol and sirt != irt:
                        addr_ok = False
        if allow_unsol and irt is not None and irt not in outstanding:
            pass
        def _binding_of(k):
            return "redirect" if "redirect" in k else "artifact" if "artifact" in k else "post"
        own = [u for k, u in sp.endpoints.items()
               if k.startswith("acs_") and (k != "acs_post2" or spec.get("acs2"))
               and (k != "acs_redirect" or not spec.get("no_redirect_acs"))
               and (k != "acs_artifact" or spec.get("acs_artifact"))
               and _binding_of(k) == rec["via_binding"]]
        dest = m["destination"]
        if dest:
            import re
            rx = spec.get("dest_regex")
            if dest not in own and not (rx and re.search(rx, dest)):
                hits.append(("C05", "foreign-destination", "dest=%s" % dest, any_enc))
            if dest not in own or (rx and not re.search(rx, dest)):
                addr_ok = False
    for a in eff:
        c = a["conditions"]
        if c and c["audiences"]:
            for grp in c["audiences"]:
                if sp.entity_id not in grp:
                    hits.append(("C05", "foreign-audience", "restriction=%s me=%s allow_unsolicited=%s" % (
                        grp, sp.entity_id, allow_unsol), a["enc"]))
                    break
    if rec.get("conv") and browser:
        allowed = set([sp.entity_id] + own)
        for a in eff:
            if not a["subject"]:
                continue
            for sc in a["subject"]["confirmations"]:
                if sc["method"] == BEARER and sc["data"] and sc["data"]["recipient"] \
                        and sc["data"]["recipient"] not in allowed:
                    hits.append(("C05", "foreign-recipient", "recipient=%s" % sc["data"]["recipient"], a["enc"]))
                elif rec.get("conv_addr_only") and sc["method"] == BEARER and sc["data"] \
                        and sc["data"]["recipient"] == sp.entity_id:
                    # the application did not tell the library its entity identifier: the library may or may not
                    # recognise it as Recipient (it refuses) - acceptance is not required
                    addr_ok = False
    for a in eff:
        if a["subject"]:
            for sc in a["subject"]["confirmations"]:
                if not sc["data"] or not sc["data"]["recipient"]:
                    addr_ok = False

    F["hits"] = [(p, r) for p, r, _, _ in hits]
    for p_, r_, _, e_ in hits:
        sim.count("oracle.%s.%s%s" % (p_, r_, ".enc" if e_ else ""))

    # ---------------- verdicts
    # (signed with the sender's configured key - or, during a key roll-over, with any key whose certificate the
    # SP's metadata lists for signing under the sender's name)
    known_signing = (sp.md_certs_for(m["issuer"], "signing") or []) if m["issuer"] else []
    faultless = (not rec.get("mut") and not rec.get("tf") and not rec.get("dup")
                 and not asked.get("p", {}).get("handover")
                 and (asked.get("signing_key") == ("k%d" % sim.truth[rec["from"]]["key"])
                      or asked.get("signing_key") in known_signing))
    solicited = (irt in outstanding) if browser else True
    # ("no genuine tool success" only counts against an acceptance: without injected faults it cannot justify
    # a refusal)
    blocking = [h_ for h_ in hits if not h_[1].startswith("no-genuine-")]
    acc_required = bool(faultless and not blocking and comfortable and not tunspec and addr_ok and all_sigs_fine
                        and eff and undec == 0 and len(eff) == 1
                        and (solicited or (allow_unsol and irt is None)))
    F["accept_required"] = acc_required
    if acc_required:
        sim.count("oracle.accept-required.checked")
    if accepted:
        sim.count("oracle.accepted.with-hits" if hits else "oracle.accepted.clean")
        for prop, rule, detail, enc in hits:
            add(sim, rec, prop, rule + ".accepted", detail)
            if enc and prop in ("C02", "C04", "C05"):
                add(sim, rec, "C17", "encrypted." + prop + "." + rule + ".accepted", detail)
        check_content(sim, rec, m, eff, out, asked, hits)
        return

    # rejected: was acceptance required?
    sim.count("oracle.rejected.with-hits" if hits else "oracle.rejected.no-hit")
    if acc_required:
        sim.count("oracle.accept-required.rejected")
        props = ["C08", "C02"]
        if out.get("exc") in TIME_EXC or out.get("none") or \
                (out.get("exc") == "VerificationError" and "Condition" in (out.get("exc_msg") or "")):
            props.append("C04")
        if any_enc:
            props.append("C17")
        if any(len(s.get("K") or []) > 1 for s in F["sigs"]):
            props.append("C03")
        props.append("C05")
        for p in props:
            add(sim, rec, p, "valid-response-rejected",
                "exc=%s msg=%s none=%s" % (out.get("exc"), out.get("exc_msg"), out.get("none")))


_NAME_MAP = {}


def documented_local_name(name):
    """local name -> the local name the SP reads it under, per the shipped attrname-format:uri map
    (a data table of the repository: to[] is looked up case-insensitively, fro[] by wire name)."""
    if not _NAME_MAP:
        from saml2_tophat.attributemaps import saml_uri
        _NAME_MAP["to"] = {k.lower(): v for k, v in saml_uri.MAP["to"].items()}
        _NAME_MAP["fro"] = {k.lower(): v for k, v in saml_uri.MAP["fro"].items()}
        # the home-grown attribute of fixtures/attributemaps_custom (only asserted in federations that use that map)
        _NAME_MAP["to"]["staffid"] = "urn:example:verif:attr:staffId"
        _NAME_MAP["fro"]["urn:example:verif:attr:staffid"] = "staffId"
    wire_name = _NAME_MAP["to"].get(name.lower())
    if wire_name is None:
        return None
    return _NAME_MAP["fro"].get(wire_name.lower())


def check_content(sim, rec, m, eff, out, asked, hits):
    """C08 / C04(session expiry) / C05(came_from) on an accepted delivery."""
    if not eff:
        return
    a = eff[0]
    corrupted = bool(rec.get("mut")) or bool(asked.get("p", {}).get("handover"))
    # session expiry handed to the application
    exp = expected_session_expiry(eff)
    if exp is not None and "session_nooa" in out and not corrupted:
        if out["session_nooa"] != exp and out["session_nooa"] not in acceptable_session_expiries(eff):
            add(sim, rec, "C04", "session-expiry-mismatch", "got=%s expected=%s" % (out["session_nooa"], exp))
            add(sim, rec, "C08", "session-expiry-mismatch", "got=%s expected=%s" % (out["session_nooa"], exp))
    # came_from
    if "came_from_expected" in out and out.get("came_from") != out["came_from_expected"]:
        add(sim, rec, "C05", "came-from-mismatch", "got=%s expected=%s" % (out.get("came_from"), out["came_from_expected"]))
    if corrupted or not asked:
        return
    # what the SP reads == what the delivered (decrypted) bytes say
    nid = a["subject"]["name_id"] if a["subject"] else None
    got = out.get("name_id")
    if nid is not None:
        if got is None or (got["text"] or "").strip() != (nid["text"] or "").strip() or got["format"] != nid["format"] \
                or got["name_qualifier"] != nid["name_qualifier"] or got["sp_name_qualifier"] != nid["sp_name_qualifier"]:
            add(sim, rec, "C08", "name-id-mismatch", "got=%s sent=%s" % (got, nid))
    want_nid = asked.get("p", {}).get("name_id")
    if want_nid and got is not None:
        for k in ("text", "format", "name_qualifier", "sp_name_qualifier"):
            if k in want_nid and (got.get(k) or None) != (want_nid[k] or None):
                add(sim, rec, "C08", "name-id-not-as-asked", "%s: got=%r asked=%r" % (k, got.get(k), want_nid[k]))
    ident = asked.get("identity")
    if ident is not None and asked.get("sp_view"):
        # the SP's metadata asks for particular attributes: only those are released to it
        ident, asked_for, refuse = fed.expected_release(ident, asked["sp_view"], asked.get("p", {}).get("entity_categories"),
                                                        asked.get("p", {}).get("attr_restrictions"))
        if refuse:
            # a required attribute is missing: the documented answer is an error response; this code base
            # answers "best effort" instead (Server.create_authn_response hard-codes it) and what is
            # released then is the business of the release policy (C07), not of this property
            sim.count("probe.required-attribute-missing.best-effort-answer")
            ident, asked_for = None, None
        if asked_for is not None:
            sim.count("probe.release-narrowed-to-requested")
            # (a policy may list an attribute under an alias of the name the SP reads it under)
            asked_for = set(asked_for) | set((documented_local_name(n) or n).lower() for n in asked_for)
            for k in (out.get("ava") or {}):
                if k.lower() not in asked_for:
                    add(sim, rec, "C08", "attribute-never-asked-for-released", "%s (asked for: %s)" % (k, sorted(asked_for)))
    if ident is not None and not asked.get("p", {}).get("pefim") and not asked.get("p", {}).get("advice"):
        # the documented name mapping (the shipped URI map, case-insensitive on the local name): several
        # asserted names may share one wire name and are then read back under one local name, merged
        want = {}
        for k, vals in ident.items():
            lk = documented_local_name(k)
            if lk is None:
                continue        # not in the map: an SP that does not allow unknown attributes drops it
            want.setdefault(lk, []).extend(v.strip() for v in vals)
        want = {k: sorted(v) for k, v in want.items()}
        have = {k: sorted((v or "").strip() if isinstance(v, str) else repr(v) for v in vals)
                for k, vals in (out.get("ava") or {}).items()}
        if want != have:
            add(sim, rec, "C08", "attributes-mismatch", "got=%r asked=%r" % (have, want))
        # structure: values never became markup
        n_attr = len(a["attrs"])
        n_vals = sum(len(x["values"]) for x in a["attrs"])
        n_children = sum(x["value_children"] for x in a["attrs"])
        if n_attr != len(ident) or n_vals != sum(len(v) for v in ident.values()) or n_children:
            add(sim, rec, "C08", "structure-changed", "attrs=%d values=%d children=%d asked=%d/%d" % (
                n_attr, n_vals, n_children, len(ident), sum(len(v) for v in ident.values())))
    # the lifetime the provider was asked to give the assertion
    pa = asked.get("p", {})
    if pa.get("lifetime") and not pa.get("dialect") and not asked.get("attribute_response") and a["conditions"] \
            and asked.get("idp_now") is not None:
        nooa = wire.ts_epoch(a["conditions"]["not_on_or_after"])
        if nooa is not None and nooa != asked["idp_now"] + pa["lifetime"]:
            add(sim, rec, "C08", "lifetime-not-as-asked", "asserted until idp_now%+d, asked idp_now%+d" % (
                nooa - asked["idp_now"], pa["lifetime"]))
    if out.get("in_response_to") != asked.get("irt") and "resp_irt" not in (asked.get("p", {}).get("dialect") or {}):
        add(sim, rec, "C08", "in-response-to-mismatch", "got=%s asked=%s" % (out.get("in_response_to"), asked.get("irt")))
    if out.get("issuer") != asked.get("issuer"):
        add(sim, rec, "C08", "issuer-mismatch", "got=%s asked=%s" % (out.get("issuer"), asked.get("issuer")))
    want_class = asked.get("p", {}).get("authn_class", fed.AUTHN_PASSWORD)
    if "authn_class" in out and out["authn_class"] != want_class:
        add(sim, rec, "C08", "authn-context-mismatch", "got=%s asked=%s" % (out["authn_class"], want_class))


# ------------------------------------------------------------------------------------- answers

def markers_of(asked):
    ms = []
    p = asked.get("p", {})
    for vals in (asked.get("identity") or {}).values():
        ms.extend(v for v in vals if len(v) >= 8)
    if p.get("name_id") and p["name_id"].get("text"):
        ms.append(p["name_id"]["text"])
    return ms


def judge_answer(sim, ev, rec):
    """Producer-side rules: C17 confidentiality / key addressing, C20 sign/encrypt tool faults."""
    from engines.fedsim import decode_value
    p = rec.get("p") or {}
    idp = sim.nodes.get(rec["idp"])
    if idp is None:
        return
    tf = ev.get("tf") or []
    enc_asked = bool(p.get("encrypt")) or (p.get("encrypt", False) is None and bool(idp.spec.get("enc_in_config")))
    asked_protect = {"sign_response": bool(p.get("sign_response")), "sign_assertion": bool(p.get("sign_assertion")),
                     "encrypt": enc_asked}
    sp_entity = rec.get("sp_entity")
    enc_labels = idp.md_certs_for(sp_entity, "encryption") if sp_entity else None
    can_encrypt = bool(enc_labels)
    if not rec.get("ok"):
        # the Server call raised: always acceptable for C20.  Without any injected fault, an honest IdP
        # that cannot build a response for a legal identity fails C08 ("for any content")
        if rec.get("error") and not tf and not p.get("handover"):
            if rec.get("refusal_expected"):
                sim.count("probe.refused-required-attribute-missing")
            elif rec.get("benign_ok"):
                sim.count("oracle.C08.content-made-provider-fail")
                add(sim, rec, "C08", "content-made-provider-fail", "%s: %s (the same call succeeds with bland content)" % (
                    rec.get("error"), rec.get("error_msg")))
            elif rec.get("default_alg_ok"):
                sim.count("oracle.C08.algorithm-choice-made-provider-fail")
                add(sim, rec, "C08", "algorithm-choice-made-provider-fail",
                    "%s: %s (the same call succeeds with the default algorithms; asked sigalg=%s digalg=%s)" % (
                        rec.get("error"), rec.get("error_msg"), p.get("sigalg"), p.get("digalg")))
            else:
                sim.count("probe.provider-failed-independent-of-content." + str(rec.get("error")))
        return
    fl = sim.flows[rec["f"]]
    msg = fl.responses[rec["r"]]
    xml = msg.get("xml")
    if xml is None:
        return
    try:
        m = wire.read_message(xml)
    except Exception:
        add(sim, rec, "C20", "producer-returned-garbage", "unparseable output returned as a message")
        return
    F = {"resp_signed": m["signed"], "n_plain": len(m["assertions"]), "n_enc": len(m["encrypted"])}
    rec["facts"] = F
    if p.get("error_status"):
        return
    # ---- C08: what an un-faulted provider signs must verify under its own key as emitted (the order in which
    # nested elements are signed matters: a signature added inside an already signed element breaks the outer one)
    if not tf and not p.get("handover") and rec.get("signing_key"):
        from engines.fedsim import signature_truth, RESP_NODE, ASSERT_NODE
        emitted = []
        if m["signed"] and m["id"]:
            emitted.append(("response", RESP_NODE, m["id"]))
        for a_ in m["assertions"]:
            if a_["signed"] and a_["id"] and not (p.get("dialect") or {}).get("advice_issuer"):
                emitted.append(("assertion", ASSERT_NODE, a_["id"]))
        for what_, node_, id_ in emitted:
            sim.count("oracle.C08.emitted-signature-checked")
            if not signature_truth(xml, node_, id_, {rec["signing_key"]}):
                add(sim, rec, "C08", "emitted-signature-does-not-verify", "%s id=%s key=%s" % (what_, id_, rec["signing_key"]))
    # ---- C08: the bearer confirmation of an answer the library built itself (no dialect, no fault) names the request
    # it answers and where it is to be delivered - whatever else the application put into the confirmation data via
    # `farg`; without them the service provider cannot accept the answer as solicited
    if not tf and not p.get("handover") and not p.get("dialect") and (msg.get("asked") or {}).get("irt"):
        want_irt = msg["asked"]["irt"]
        for a_ in m["assertions"]:
            for sc_ in ((a_.get("subject") or {}).get("confirmations") or []):
                if sc_["method"] != BEARER:
                    continue
                sim.count("oracle.C08.built-confirmation-checked")
                d_ = sc_["data"] or {}
                if d_.get("in_response_to") != want_irt or not d_.get("recipient"):
                    add(sim, rec, "C08", "built-confirmation-incomplete", "in_response_to=%r (asked %r) recipient=%r" % (
                        d_.get("in_response_to"), want_irt, d_.get("recipient")))
    # ---- C20: a protection that was asked for and whose tool run produced nothing
    faulted_ops = set(f["op"] for f in tf if f.get("ord", "all") == "all")
    root = ET.fromstring(xml)

    def sigvalue_filled(elem):
        s = elem.find(wire.q(wire.DS, "Signature"))
        if s is None:
            return None
        sv = s.find(wire.q(wire.DS, "SignatureValue"))
        return bool(sv is not None and (sv.text or "").strip())

    if asked_protect["sign_response"]:
        filled = sigvalue_filled(root)
        if not filled:
            add(sim, rec, "C20", "unsigned-returned-as-signed.response",
                "signature %s; tool=%s" % ("absent" if filled is None else "empty", rec.get("tool")))
    if asked_protect["sign_assertion"] and not (asked_protect["encrypt"] and can_encrypt):
        for a in root.findall(wire.q(wire.SAML, "Assertion")):
            filled = sigvalue_filled(a)
            if not filled:
                add(sim, rec, "C20", "unsigned-returned-as-signed.assertion",
                    "signature %s; tool=%s" % ("absent" if filled is None else "empty", rec.get("tool")))
    enc_faulted = any(f.get("op") == "encrypt" for f in tf)
    conf_props = ["C17"] + (["C20"] if enc_faulted else [])
    if asked_protect["encrypt"] and can_encrypt and not (p.get("dialect") or {}).get("plain_next_to_encrypted"):
        # (also with PEFIM / advice encryption on top: when the main assertion is to be encrypted, no assertion
        # may be left readable at the top level of the response)
        wrapped_plain = sum(1 for e in m["encrypted"] if any(t.endswith("}Assertion") for t in e["plain_children"]))
        if m["assertions"] or wrapped_plain:
            for cp in conf_props:
                add(sim, rec, cp, "plain-assertion-returned-as-encrypted",
                    "n_plain=%d inside-EncryptedAssertion-wrapper=%d tool=%s" % (len(m["assertions"]), wrapped_plain, rec.get("tool")))
    # ---- C17: confidentiality of what was encrypted (PEFIM: the attribute assertion in the Advice is always
    # to be encrypted, whether or not the main assertion is)
    if (asked_protect["encrypt"] or p.get("pefim")) and can_encrypt:
        asked = msg.get("asked") or {}
        decodings = []
        raw = msg["fields"].get("SAMLResponse") or ""
        decodings.append(raw)
        try:
            decodings.append(xml.decode("utf-8", "replace"))
        except Exception:
            pass
        import html as _html
        decodings.append(_html.unescape(decodings[-1]))
        ms = []
        plain_twin = (p.get("dialect") or {}).get("plain_next_to_encrypted") is not None
        if plain_twin or ((p.get("advice") or p.get("pefim")) and not asked_protect["encrypt"]):
            # only the attribute values are confidential here: the main assertion (PEFIM without encrypt_assertion)
            # or a second, deliberately plain assertion about the same subject travels in clear
            for vals in (asked.get("identity") or {}).values():
                ms.extend(v for v in vals if len(v) >= 8)
        else:
            ms = markers_of(asked)
            # the name identifier the IdP chose itself
            for inv_plain in sim.world.tool.plaintexts.values():
                pass
        leaked = [mk for mk in ms if any(mk in d for d in decodings)]
        if leaked:
            for cp in conf_props:
                add(sim, rec, cp, "plaintext-leak", "markers in clear: %r" % leaked[:3])
        if not (p.get("advice") or p.get("pefim") or plain_twin):
            names = list((asked.get("identity") or {}).keys())
            leaked_names = [n for n in names if any(('FriendlyName="%s"' % n) in d for d in decodings)]
            if leaked_names:
                add(sim, rec, "C17", "attribute-name-leak", "names in clear: %r" % leaked_names[:3])
        # addressed to one of the SP's encryption certificates as the IdP knows them (or, for the PEFIM advice,
        # to the certificate that came with the request)
        adv_label = ("k%d" % p["enc_cert_advice"]) if p.get("enc_cert_advice") is not None and p.get("pefim") else None
        # a certificate that came with the request is the SP's too, unless the operator's hook says otherwise
        req_label = ("k%d" % p["enc_cert"]) if p.get("enc_cert") is not None and idp.spec.get("enc_hook_allow") is None else None
        enc_runs = [t for t in (rec.get("tool") or []) if t.get("op") == "encrypt" and t.get("healthy_ok")]
        for t in enc_runs:
            if t.get("key") not in (enc_labels or []) + ([adv_label] if adv_label else []) + ([req_label] if req_label else []):
                add(sim, rec, "C17", "encrypted-for-foreign-key", "key=%s sp-enc-certs=%s" % (t.get("key"), enc_labels))
        if adv_label and enc_runs and not enc_faulted and adv_label not in [t.get("key") for t in enc_runs]:
            add(sim, rec, "C17", "advice-not-encrypted-for-requested-certificate",
                "requested=%s used=%s" % (adv_label, [t.get("key") for t in enc_runs]))


# ------------------------------------------------------------------------------------- requests

def judge_req(sim, ev, rec):
    """C10: what must be true of a request that was handed to the application."""
    from engines.fedsim import signature_truth, decode_value
    idp = sim.nodes[rec["to"]]
    spec = idp.spec
    handed = rec["handed"]
    hits = []
    F = {}
    rec["facts"] = F
    slack = spec.get("slack") or 0
    now = rec["now"]
    try:
        xml = decode_value(rec["value"], rec["via_binding"])
        m = wire.read_message(xml)
    except Exception as e:
        F["undecodable"] = type(e).__name__
        if handed:
            add(sim, rec, "C10", "undecodable-handed", F["undecodable"])
        return
    # the type the receiving endpoint expects (a request delivered to another service's endpoint
    # must not be handed over as that service's request type)
    from engines.fedsim import PREFIX_KIND
    service = rec["via"].split("_")[0] + "_"
    want = PREFIX_KIND[service][1]
    if m["ns"] != wire.SAMLP or m["type"] != want:
        if handed:
            add(sim, rec, "C10", "wrong-type-handed", "%s at %s" % (m["type"], rec["via"]))
        return
    own = [u for k, u in idp.endpoints.items() if k.startswith(service) and k.endswith(rec["via_binding"])]
    F.update({"dest": m["destination"], "own": own, "signed": m["signed"], "issuer": m["issuer"]})
    if m["destination"] and m["destination"] not in own:
        hits.append(("foreign-destination", "dest=%s own=%s" % (m["destination"], own)))
    # schema: ID, Version and IssueInstant are required attributes of every request, and an xs:ID is not empty
    for attr_, val_ in (("ID", m["id"]), ("IssueInstant", m["issue_instant"]), ("Version", m["version"])):
        if not (val_ or "").strip():
            hits.append(("schema-required-attribute-missing", attr_))
    ii = wire.ts_epoch(m["issue_instant"])
    fresh_comfortable = False
    if ii is not None:
        if abs(now - ii) > 86400 + slack:
            hits.append(("stale-issue-instant", "now=%d issued=%d slack=%d" % (now, ii, slack)))
        fresh_comfortable = abs(now - ii) + 1 < 86400
    if m["version"] != "2.0":
        hits.append(("version", str(m["version"])))
    sig_ok = True
    if m["signed"]:
        K = idp.md_certs_for(m["issuer"], "signing") if m["issuer"] else None
        cands = set(K or [])
        if rec.get("signed_by"):
            cands.add(rec["signed_by"])
        node = "urn:oasis:names:tc:SAML:2.0:protocol:" + want
        valid_under = signature_truth(xml, node, m["id"], cands)
        F["valid_under"] = valid_under
        F["K"] = K
        only_md = spec.get("only_md_keys")
        only_md = True if only_md is None else bool(only_md)
        if not valid_under:
            sig_ok = False
            hits.append(("invalid-signature", "K=%s" % K))
        elif not (set(valid_under) & set(K or [])):
            sig_ok = False
            if only_md or K:
                hits.append(("untrusted-key", "valid_under=%s K=%s" % (valid_under, K)))
        genuine = [t for t in rec["tool"] if t.get("op") == "verify" and t.get("genuine_ok")]
        if not genuine:
            hits.append(("no-genuine-verify", "tool=%s" % [(t.get("fault"), t.get("healthy_ok")) for t in rec["tool"]]))
    elif (spec.get("want_authn_requests_signed") or spec.get("only_valid_cert")) and idp.kind == "idp":
        # (want_authn_requests_only_with_valid_cert implies that a signature is wanted)
        hits.append(("unsigned-but-required", ""))
    F["hits"] = [h[0] for h in hits]
    for rule, _ in hits:
        sim.count("oracle.C10.%s.%s" % (rec["kindmsg"], rule))
    sim.count("oracle.C10.handed" if handed else "oracle.C10.refused")
    if handed:
        for rule, detail in hits:
            prop = "C20" if rule == "no-genuine-verify" else "C10"
            add(sim, rec, prop, rule + ".handed", detail)
            if rule == "untrusted-key":
                # the trust rule of C03 holds for signed requests as well
                add(sim, rec, "C03", "request." + rule + ".handed", detail)
        return
    faultless = not rec.get("mut") and not rec.get("tf")
    if faultless and not hits and fresh_comfortable and sig_ok and m["issuer"] in idp.peer_view \
            and (m["destination"] in own):
        sim.count("oracle.C10.accept-required.refused")
        add(sim, rec, "C10", "valid-request-refused", "exc=%s" % rec.get("exc"))
        if m["signed"]:
            add(sim, rec, "C03", "request.trusted-signature-refused", "exc=%s valid_under=%s K=%s" % (
                rec.get("exc"), F.get("valid_under"), F.get("K")))
