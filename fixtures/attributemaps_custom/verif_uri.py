"""A deployment's own attribute map directory (the documented `attribute_map_dir` option): the shipped
attrname-format:uri map plus one home-grown attribute.  (Only MAP may be a module-level dictionary:
ac_factory() turns every one it finds into a converter.)"""


def _build():
    import copy
    from saml2_tophat.attributemaps import saml_uri
    m = copy.deepcopy(saml_uri.MAP)
    m["fro"]["urn:example:verif:attr:staffId"] = "staffId"
    m["to"]["staffId"] = "urn:example:verif:attr:staffId"
    return m


MAP = _build()
