"""One-off generator for the key/certificate fixtures (output is committed).

RSA-1024 (speed; the stub tool and pysaml2 only need *distinct* keys), certificates
self-signed, valid 2000-01-01 .. 2099-12-31 so that neither the real nor the simulated
clock can ever fall outside the validity period (pyOpenSSL reads the real clock).
"""
import datetime, os, sys
from cryptography import x509
from cryptography.x509.oid import NameOID
from cryptography.hazmat.primitives import hashes, serialization
from cryptography.hazmat.primitives.asymmetric import rsa

HERE = os.path.dirname(os.path.abspath(__file__))
N = 12
for i in range(N):
    key = rsa.generate_private_key(65537, 1024)
    name = x509.Name([x509.NameAttribute(NameOID.COMMON_NAME, u"verif-fixture-%d" % i)])
    cert = (x509.CertificateBuilder().subject_name(name).issuer_name(name)
            .public_key(key.public_key()).serial_number(1000 + i)
            .not_valid_before(datetime.datetime(2000, 1, 1))
            .not_valid_after(datetime.datetime(2099, 12, 31))
            .sign(key, hashes.SHA256()))
    with open(os.path.join(HERE, "k%d.key" % i), "wb") as f:
        f.write(key.private_bytes(serialization.Encoding.PEM,
                                  serialization.PrivateFormat.TraditionalOpenSSL,
                                  serialization.NoEncryption()))
    with open(os.path.join(HERE, "k%d.crt" % i), "wb") as f:
        f.write(cert.public_bytes(serialization.Encoding.PEM))
print("wrote", N, "key pairs")
