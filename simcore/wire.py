"""The transport's own view of messages: binding codecs and a minimal SAML reader written with
the standard library only (urllib, html.parser, base64, zlib, ElementTree) - independent of
saml2_tophat.pack / saml2_tophat.saml, so that oracles never ask the code under test what a
message says.
"""
import base64
import calendar
import html
import html.parser
import re
import time as _t
import urllib.parse
import xml.etree.ElementTree as ET
import zlib

SAML = "urn:oasis:names:tc:SAML:2.0:assertion"
SAMLP = "urn:oasis:names:tc:SAML:2.0:protocol"
DS = "http://www.w3.org/2000/09/xmldsig#"
XENC = "http://www.w3.org/2001/04/xmlenc#"
SOAPENV = "http://schemas.xmlsoap.org/soap/envelope/"

BINDING_HTTP_REDIRECT = 'urn:oasis:names:tc:SAML:2.0:bindings:HTTP-Redirect'
BINDING_HTTP_POST = 'urn:oasis:names:tc:SAML:2.0:bindings:HTTP-POST'
BINDING_SOAP = 'urn:oasis:names:tc:SAML:2.0:bindings:SOAP'


def q(ns, local):
    return "{%s}%s" % (ns, local)


# ------------------------------------------------------------------ binding codecs

class _FormParser(html.parser.HTMLParser):
    def __init__(self):
        html.parser.HTMLParser.__init__(self, convert_charrefs=True)
        self.action = None
        self.fields = []

    def handle_starttag(self, tag, attrs):
        a = dict(attrs)
        if tag == "form" and self.action is None:
            self.action = a.get("action")
        elif tag == "input" and a.get("name") is not None and a.get("type") != "submit":
            self.fields.append((a.get("name"), a.get("value") or ""))

    handle_startendtag = handle_starttag


def read_post_form(page):
    """What a user agent would submit: (action, [(name, value), ...])."""
    p = _FormParser()
    p.feed(page)
    p.close()
    return p.action, p.fields


def read_redirect(url):
    """-> (location without query, [(name, value), ...])  (values percent-decoded)"""
    parts = urllib.parse.urlsplit(url)
    pairs = urllib.parse.parse_qsl(parts.query, keep_blank_values=True)
    base = urllib.parse.urlunsplit((parts.scheme, parts.netloc, parts.path, "", ""))
    return base, pairs


def inflate_b64(value):
    return zlib.decompress(base64.b64decode(value), -15)


def deflate_b64(data):
    if isinstance(data, str):
        data = data.encode("utf-8")
    c = zlib.compressobj(9, zlib.DEFLATED, -15)
    return base64.b64encode(c.compress(data) + c.flush()).decode("ascii")


def soap_body(envelope):
    """The single child of the SOAP Body, serialised on its own."""
    root = ET.fromstring(envelope if isinstance(envelope, bytes) else envelope.encode("utf-8"))
    body = root.find(q(SOAPENV, "Body"))
    if body is None or len(body) != 1:
        raise ValueError("not a SOAP envelope with one body child")
    return ET.tostring(body[0], encoding="utf-8")


def soap_wrap(xml):
    if isinstance(xml, bytes):
        xml = xml.decode("utf-8")
    xml = re.sub(r"^<\?xml[^>]*\?>\s*", "", xml)
    return ('<?xml version="1.0" encoding="UTF-8"?>\n<ns0:Envelope xmlns:ns0="%s"><ns0:Body>%s'
            '</ns0:Body></ns0:Envelope>' % (SOAPENV, xml))


# ------------------------------------------------------------------ time

_TS = re.compile(r"^(\d{4})-(\d\d)-(\d\d)T(\d\d):(\d\d):(\d\d)(\.\d*)?(Z|[+-]\d\d:\d\d)?$")


def ts_epoch(s):
    """Whole-second epoch value of an xs:dateTime as pysaml2 documents it (UTC; fraction dropped;
    a missing zone designator means UTC).  None when the string is not such a timestamp."""
    if not s:
        return None
    m = _TS.match(s.strip())
    if not m:
        return None
    y, mo, d, h, mi, sec = (int(m.group(i)) for i in range(1, 7))
    try:
        base = calendar.timegm((y, mo, d, h, mi, sec, 0, 0, 0))
    except Exception:
        return None
    z = m.group(8)
    if z and z != "Z":
        # an explicit offset: the instant is the wall-clock reading minus the offset
        sign = 1 if z[0] == "+" else -1
        base -= sign * (int(z[1:3]) * 3600 + int(z[4:6]) * 60)
    return base


def has_offset(s):
    m = _TS.match((s or "").strip())
    return bool(m and m.group(8) and m.group(8) != "Z")


def fmt_ts(epoch, style="Z"):
    s = _t.strftime("%Y-%m-%dT%H:%M:%S", _t.gmtime(epoch))
    if style == "Z":
        return s + "Z"
    if style == "frac":
        return s + ".000Z"
    if style == "frac9":
        return s + ".999Z"
    if style == "nozone":
        return s
    if style == "fracnozone":
        return s + ".5"
    if style.startswith("off"):
        # e.g. "off+02:00", "off-05:00", "off+05:30f": same instant written with a UTC offset
        z = style[3:9]
        sign = 1 if z[0] == "+" else -1
        delta = sign * (int(z[1:3]) * 3600 + int(z[4:6]) * 60)
        w = _t.strftime("%Y-%m-%dT%H:%M:%S", _t.gmtime(epoch + delta))
        return w + (".500" if style.endswith("f") else "") + z
    return s + "Z"


# ------------------------------------------------------------------ minimal reader

def _txt(e):
    return (e.text or "") if e is not None else None


def read_assertion(a):
    d = {"id": a.get("ID"), "issue_instant": a.get("IssueInstant"), "version": a.get("Version"),
         "issuer": (_txt(a.find(q(SAML, "Issuer"))) or "").strip() or None,
         "signed": a.find(q(DS, "Signature")) is not None,
         "conditions": None, "subject": None, "authn": [], "attrs": [], "advice_enc": 0,
         "advice_plain": 0}
    c = a.find(q(SAML, "Conditions"))
    if c is not None:
        d["conditions"] = {
            "not_before": c.get("NotBefore"), "not_on_or_after": c.get("NotOnOrAfter"),
            "audiences": [[(_txt(x) or "").strip() for x in r.findall(q(SAML, "Audience"))]
                          for r in c.findall(q(SAML, "AudienceRestriction"))],
            "other": [ch.tag for ch in c if ch.tag != q(SAML, "AudienceRestriction")]}
    s = a.find(q(SAML, "Subject"))
    if s is not None:
        nid = s.find(q(SAML, "NameID"))
        sd = {"name_id": None, "confirmations": [], "encrypted_id": s.find(q(SAML, "EncryptedID")) is not None}
        if nid is not None:
            sd["name_id"] = {"text": _txt(nid), "format": nid.get("Format"),
                             "name_qualifier": nid.get("NameQualifier"),
                             "sp_name_qualifier": nid.get("SPNameQualifier"),
                             "sp_provided_id": nid.get("SPProvidedID")}
        for sc in s.findall(q(SAML, "SubjectConfirmation")):
            data = sc.find(q(SAML, "SubjectConfirmationData"))
            cd = {"method": sc.get("Method"), "data": None}
            if data is not None:
                cd["data"] = {"not_before": data.get("NotBefore"),
                              "not_on_or_after": data.get("NotOnOrAfter"),
                              "recipient": data.get("Recipient"),
                              "in_response_to": data.get("InResponseTo"),
                              "address": data.get("Address")}
            sd["confirmations"].append(cd)
        d["subject"] = sd
    for st in a.findall(q(SAML, "AuthnStatement")):
        ctx = st.find(q(SAML, "AuthnContext"))
        cref = ctx.find(q(SAML, "AuthnContextClassRef")) if ctx is not None else None
        d["authn"].append({"session_not_on_or_after": st.get("SessionNotOnOrAfter"),
                           "authn_instant": st.get("AuthnInstant"),
                           "session_index": st.get("SessionIndex"),
                           "class_ref": _txt(cref)})
    for ast in a.findall(q(SAML, "AttributeStatement")):
        for at in ast.findall(q(SAML, "Attribute")):
            d["attrs"].append({"name": at.get("Name"), "name_format": at.get("NameFormat"),
                               "friendly": at.get("FriendlyName"),
                               "values": [_txt(v) for v in at.findall(q(SAML, "AttributeValue"))],
                               "value_children": sum(len(v) for v in at.findall(q(SAML, "AttributeValue")))})
    adv = a.find(q(SAML, "Advice"))
    if adv is not None:
        d["advice_enc"] = len(adv.findall(q(SAML, "EncryptedAssertion")))
        d["advice_plain"] = len(adv.findall(q(SAML, "Assertion")))
    return d


def read_message(xml):
    """Facts about a protocol message.  Raises on non-XML."""
    if isinstance(xml, str):
        xml = xml.encode("utf-8")
    root = ET.fromstring(xml)
    ns, _, local = root.tag[1:].partition("}") if root.tag.startswith("{") else ("", "", root.tag)
    d = {"ns": ns, "type": local, "id": root.get("ID"), "version": root.get("Version"),
         "issue_instant": root.get("IssueInstant"), "destination": root.get("Destination"),
         "in_response_to": root.get("InResponseTo"),
         "acs_url": root.get("AssertionConsumerServiceURL"),
         "acs_index": root.get("AssertionConsumerServiceIndex"),
         "protocol_binding": root.get("ProtocolBinding"),
         "issuer": (_txt(root.find(q(SAML, "Issuer"))) or "").strip() or None,
         "signed": root.find(q(DS, "Signature")) is not None,
         "status": None, "status2": None, "assertions": [], "encrypted": [],
         "n_elements": sum(1 for _ in root.iter())}
    st = root.find(q(SAMLP, "Status"))
    if st is not None:
        sc = st.find(q(SAMLP, "StatusCode"))
        if sc is not None:
            d["status"] = sc.get("Value")
            sc2 = sc.find(q(SAMLP, "StatusCode"))
            if sc2 is not None:
                d["status2"] = sc2.get("Value")
    for a in root.findall(q(SAML, "Assertion")):
        d["assertions"].append(read_assertion(a))
    for ea in root.findall(q(SAML, "EncryptedAssertion")):
        ed = ea.find(q(XENC, "EncryptedData"))
        cv = ed.find(q(XENC, "CipherData") + "/" + q(XENC, "CipherValue")) if ed is not None else None
        d["encrypted"].append({"cipher": "".join((cv.text or "").split()) if cv is not None else None,
                               "plain_children": [ch.tag for ch in ea if ch.tag != q(XENC, "EncryptedData")]})
    return d


# ------------------------------------------------------------------ byte spans of elements

def element_spans(xml_bytes, want_tags):
    """Byte spans (start, end) of every element whose expanded tag is in want_tags, found with an
    expat pass; used to place corruption inside / outside signed content."""
    import xml.parsers.expat as expat
    p = expat.ParserCreate(namespace_separator="}")
    stack = []
    out = []

    def start(name, attrs):
        tag = "{" + name if "}" in name else name
        stack.append((tag, p.CurrentByteIndex, attrs.get("ID")))

    def end(name):
        tag, st, ident = stack.pop()
        if tag in want_tags:
            out.append((tag, ident, st, None, p.CurrentByteIndex))

    p.StartElementHandler = start
    p.EndElementHandler = end
    p.Parse(xml_bytes, True)
    # end index from expat is the start of the end tag; extend to the closing '>'
    res = []
    for tag, ident, st, _, e in out:
        close = xml_bytes.find(b">", e)
        res.append({"tag": tag, "id": ident, "start": st, "end": (close + 1) if close >= 0 else e})
    return res
