"""The simulated world shared by the engines: clock, identifier source, tool, key ring."""
import os
import random

from simcore import seams
from simcore.prng import derive
from simcore.simxmlsec import SimXmlsec, load_cert_public_key, pub_fingerprint

NKEYS = 12


def key_file(i):
    return os.path.join(seams.FIXTURES, "k%d.key" % i)


def cert_file(i):
    return os.path.join(seams.FIXTURES, "k%d.crt" % i)


_CERT_B64 = {}


def cert_b64(i):
    """The base64 body of fixture certificate i, one line (as metadata carries it)."""
    if i not in _CERT_B64:
        with open(cert_file(i)) as f:
            lines = [l.strip() for l in f if l.strip() and not l.startswith("-----")]
        _CERT_B64[i] = "".join(lines)
    return _CERT_B64[i]


_KEYRING = None


def keyring():
    global _KEYRING
    if _KEYRING is None:
        kr = {}
        for i in range(NKEYS):
            with open(cert_file(i), "rb") as f:
                kr[pub_fingerprint(load_cert_public_key(f.read()))] = "k%d" % i
        _KEYRING = kr
    return _KEYRING


class SimClock(object):
    """Global simulated time plus a per-node offset (skew).  Whole run in simulated seconds."""

    def __init__(self, start=seams.SIM_EPOCH):
        self.t = float(start)
        self.offsets = {}
        self.start = float(start)

    def now(self, node=None):
        return self.t + self.offsets.get(node, 0.0)

    def advance(self, dt):
        if dt > 0:
            self.t += dt

    def set(self, t):
        if t > self.t:
            self.t = t

    def skew(self, node, off):
        self.offsets[node] = float(off)

    def jump(self, node, delta):
        self.offsets[node] = self.offsets.get(node, 0.0) + float(delta)


class IdSource(object):
    """What `random.SystemRandom()` resolves to inside pysaml2.

    Every call hands out the same seeded generator; before doing so its state is remembered, so
    that the `entropy-repeat` fault can make the *next* draw repeat an earlier output exactly.
    """

    def __init__(self, seed):
        self.rng = random.Random(derive(seed, "ids"))
        self.states = []
        self.repeat_next = None     # index into self.states
        self.repeat_times = 1       # how many consecutive draws repeat it (a stuck entropy pool)
        self.draws = 0
        self.repeats_fired = 0

    def next_rng(self):
        self.draws += 1
        if self.repeat_next is not None and self.states:
            st = self.states[self.repeat_next % len(self.states)]
            self.repeat_times -= 1
            if self.repeat_times <= 0:
                self.repeat_next = None
                self.repeat_times = 1
            self.repeats_fired += 1
            r = random.Random()
            r.setstate(st)
            return r
        if len(self.states) < 4096:
            self.states.append(self.rng.getstate())
        return self.rng


class World(object):
    def __init__(self, seed, tz=None):
        self.seed = seed
        self.tz = tz            # the process's local time zone (POSIX TZ string); None = UTC
        self.clock = SimClock()
        self.ids = IdSource(seed)
        self.tool = SimXmlsec(random.Random(derive(seed, "crypto")), keyring())
        self.nodes = {}
        self._tmp = None

    def tmpdir(self):
        """Per-run scratch directory (metadata files the nodes load); removed when the run ends."""
        if self._tmp is None:
            import tempfile
            self._tmp = tempfile.mkdtemp(prefix="verif-world-")
        return self._tmp

    def __enter__(self):
        seams.install()
        self._prev = (seams.CTX.world, seams.CTX.node)
        seams.CTX.world = self
        seams.CTX.node = None
        if self.tz:
            seams.set_tz(self.tz)
        # every temporary file of the run (the harness's and the ones pysaml2 writes for the tool, some of
        # which it never removes) lives in the per-run scratch directory
        import tempfile
        self._old_tempdir = tempfile.tempdir
        tempfile.tempdir = self.tmpdir()
        return self

    def __exit__(self, *a):
        seams.CTX.world, seams.CTX.node = self._prev
        if self.tz:
            seams.set_tz("UTC")
        import tempfile
        tempfile.tempdir = self._old_tempdir
        if self._tmp is not None:
            import shutil
            shutil.rmtree(self._tmp, ignore_errors=True)
            self._tmp = None
        return False

    def on(self, node):
        return _On(node)


class _On(object):
    def __init__(self, node):
        self.node = node

    def __enter__(self):
        self.prev = seams.CTX.node
        seams.CTX.node = self.node

    def __exit__(self, *a):
        seams.CTX.node = self.prev
        return False
