"""Seed derivation.  One integer decides everything.

`derive(seed, *labels)` is a pure function (SHA-256 of the decimal seed and the labels), so
independent streams ("layout", "workload", "schedule", "faults", "ids", "crypto", per-event
sub-seeds) never disturb one another, and deleting an event during minimisation does not
shift the randomness of the events that remain.
"""
import hashlib
import random


def derive(seed, *labels):
    h = hashlib.sha256()
    h.update(str(int(seed)).encode())
    for lab in labels:
        h.update(b"/")
        h.update(str(lab).encode())
    return int.from_bytes(h.digest()[:8], "big")


def stream(seed, *labels):
    return random.Random(derive(seed, *labels))


class Rng(random.Random):
    """random.Random with a few helpers used by the generators."""

    def chance(self, p):
        return self.random() < p

    def pick(self, seq):
        return seq[self.randrange(len(seq))]

    def weighted(self, pairs):
        # pairs: [(item, weight), ...]
        tot = sum(w for _, w in pairs)
        x = self.random() * tot
        acc = 0.0
        for item, w in pairs:
            acc += w
            if x < acc:
                return item
        return pairs[-1][0]

    def subset(self, seq, p=0.5):
        return [x for x in seq if self.random() < p]


def rng(seed, *labels):
    return Rng(derive(seed, *labels))
