"""Seeded search driver shared by all engines: process pool, violation handling (minimise,
write replay file, replay in a fresh interpreter, known-findings), evidence writer,
determinism self-test.

Engine module interface:
    generate(seed, prop, tier) -> scenario (JSON-able dict with an "events" list)
    execute(scenario) -> dict(violations=[{prop, rule, detail, i}], signature=str, digest=str,
                              counters={..}, sim_seconds=float, nontrivial=bool, sample=obj,
                              steps=int)
    COMPONENTS: {"real": [...], "stub": [...]}

Exit codes: 0 held (or only known findings); 1 VIOLATION; 3 HARNESS-ERROR (never a verdict).
"""
import concurrent.futures as cf
import faulthandler
import hashlib
import importlib
import json
import multiprocessing
import os
import subprocess
import sys
import time
import traceback

VERIF = os.path.dirname(os.path.dirname(os.path.abspath(__file__)))
# self-tests that run the checks against a deliberately broken scratch copy redirect their
# replay files and evidence away from /verif
OUT = os.environ.get("VERIF_OUT", VERIF)
PY = "/venv/bin/python"

ENGINE_OF = {
    "C02": "engines.fedengine", "C03": "engines.fedengine", "C04": "engines.fedengine",
    "C05": "engines.fedengine", "C08": "engines.fedengine", "C10": "engines.fedengine",
    "C17": "engines.fedengine", "C20": "engines.c20engine",
    "C18": "engines.storesim", "C19": "engines.storesim",
    "C16": "engines.mdsim", "C15": "engines.threadsim",
}


def load_engine(prop):
    return importlib.import_module(ENGINE_OF[prop])


def _worker(args):
    prop, tier, seed, per_run_timeout = args
    faulthandler.dump_traceback_later(per_run_timeout, exit=True)
    try:
        eng = load_engine(prop)
        sc = eng.generate(seed, prop, tier)
        res = eng.execute(sc)
        res["seed"] = seed
        viol = [v for v in res["violations"] if v["prop"] == prop]
        other = [v for v in res["violations"] if v["prop"] != prop]
        res["violations"] = viol
        res["other"] = [(v["prop"], v["rule"]) for v in other]
        if viol:
            res["scenario"] = sc
        return res
    except Exception as e:
        return {"seed": seed, "harness_error": "%s: %s" % (type(e).__name__, e),
                "trace": traceback.format_exc()}
    finally:
        faulthandler.cancel_dump_traceback_later()


# ----------------------------------------------------------------------------- minimisation

def same_violation(eng, sc, prop, rule):
    try:
        res = eng.execute(sc)
    except Exception:
        return None
    for v in res["violations"]:
        if v["prop"] == prop and v["rule"] == rule:
            return v
    return None


def minimise(eng, sc, prop, rule, budget_s=60):
    """Delta debugging over the event list, then engine-specific knob simplification; a candidate
    is kept only if the same rule of the same property still fires."""
    t0 = time.time()
    cur = json.loads(json.dumps(sc))
    events = cur["events"]
    n = 2
    while len(events) >= 2 and time.time() - t0 < budget_s:
        chunk = max(1, len(events) // n)
        reduced = False
        for start in range(0, len(events), chunk):
            cand = events[:start] + events[start + chunk:]
            if not cand:
                continue
            trial = dict(cur, events=cand)
            if same_violation(eng, trial, prop, rule):
                events = cand
                cur = trial
                n = max(n - 1, 2)
                reduced = True
                break
            if time.time() - t0 > budget_s:
                break
        if not reduced:
            if chunk == 1:
                break
            n = min(len(events), n * 2)
    if hasattr(eng, "simplify"):
        for cand in eng.simplify(cur):
            if time.time() - t0 > budget_s * 1.5:
                break
            if same_violation(eng, cand, prop, rule):
                cur = cand
    return cur


# ----------------------------------------------------------------------------- known findings

def load_known():
    p = os.path.join(VERIF, "known_findings.json")
    if not os.path.exists(p):
        return []
    with open(p) as f:
        return json.load(f).get("known", [])


def match_known(known, prop, rule, detail, scenario):
    for k in known:
        if k["property"] != prop or k["rule"] != rule:
            continue
        cond = k.get("detail_contains")
        if cond and not all(c in (detail or "") for c in cond):
            continue
        return k
    return None


# ----------------------------------------------------------------------------- main driver

def replay_file(path):
    with open(path) as f:
        rp = json.load(f)
    eng = load_engine(rp["property"])
    res = eng.execute(rp["scenario"])
    hit = None
    for v in res["violations"]:
        if v["prop"] == rp["property"] and v["rule"] == rp["expect"]["rule"]:
            hit = v
            break
    return rp, res, hit


def run_check(prop, tier, base_seed, budget=None):
    t_start = time.time()
    eng = load_engine(prop)
    plan = eng.PLAN[prop][tier]
    nruns = int(os.environ.get("VERIF_RUNS", plan["runs"]))
    jobs = int(os.environ.get("VERIF_JOBS", min(16, os.cpu_count() or 4)))
    wall_cap = float(os.environ.get("VERIF_WALL", plan.get("wall", 110)))
    per_run_timeout = plan.get("run_timeout", 120)
    seeds = [base_seed * 1000003 + i for i in range(nruns)]
    results = []
    harness_errors = []
    ctx = multiprocessing.get_context("fork")
    done = 0
    with cf.ProcessPoolExecutor(max_workers=jobs, mp_context=ctx) as ex:
        futs = {}
        it = iter(seeds)
        # keep the queue short so the wall-clock cap can stop submission
        def submit_next():
            try:
                s = next(it)
            except StopIteration:
                return False
            futs[ex.submit(_worker, (prop, tier, s, per_run_timeout))] = s
            return True
        for _ in range(jobs * 2):
            if not submit_next():
                break
        while futs:
            finished, _ = cf.wait(list(futs), timeout=per_run_timeout + 30, return_when=cf.FIRST_COMPLETED)
            if not finished:
                harness_errors.append("worker timeout")
                break
            for fu in finished:
                s = futs.pop(fu)
                try:
                    r = fu.result()
                except Exception as e:
                    harness_errors.append("seed %d: worker died: %s" % (s, e))
                    continue
                if "harness_error" in r:
                    harness_errors.append("seed %d: %s\n%s" % (s, r["harness_error"], r.get("trace", "")))
                else:
                    results.append(r)
                done += 1
                if time.time() - t_start < wall_cap:
                    submit_next()
    results.sort(key=lambda r: r["seed"])
    explore_s = time.time() - t_start

    # ---- violations -> minimise, replay file, fresh-interpreter replay, known findings
    known = load_known()
    out_lines = []
    n_viol = 0
    known_hits = {}
    seen_rules = set()
    os.makedirs(os.path.join(OUT, "replays"), exist_ok=True)
    for r in results:
        for v in r["violations"]:
            key = (v["prop"], v["rule"])
            if key in seen_rules:
                continue
            seen_rules.add(key)
            sc = r["scenario"]
            small = minimise(eng, sc, prop, v["rule"], budget_s=plan.get("min_budget", 45))
            vv = same_violation(eng, small, prop, v["rule"]) or v
            k = match_known(known, prop, v["rule"], vv.get("detail"), small)
            path = os.path.join(OUT, "replays", "%s-%s-%d.json" % (prop, v["rule"].replace("/", "_"), r["seed"]))
            rp = {"property": prop, "engine": ENGINE_OF[prop], "seed": r["seed"], "tier": tier,
                  "expect": {"rule": v["rule"], "detail": vv.get("detail"), "event": vv.get("i")},
                  "original_events": len(sc["events"]), "minimised_events": len(small["events"]),
                  "scenario": small}
            with open(path, "w") as f:
                json.dump(rp, f, indent=1, sort_keys=True)
            # replay in a fresh interpreter: must fail the same way
            pr = subprocess.run([PY, os.path.join(VERIF, "bin", "check"), prop, "--replay", path],
                                capture_output=True, text=True, timeout=300,
                                env=dict(os.environ, PYTHONHASHSEED="0"))
            reproduced = ("REPRODUCED" in pr.stdout)
            if not reproduced:
                harness_errors.append("violation %s/%s seed %d did not replay in a fresh interpreter:\n%s\n%s"
                                      % (prop, v["rule"], r["seed"], pr.stdout[-2000:], pr.stderr[-2000:]))
                continue
            if k is not None:
                known_hits[k["id"]] = (k, path)
                continue
            n_viol += 1
            out_lines.append("VIOLATION property=%s replay=%s" % (prop, path))
            out_lines.append("  rule=%s seed=%d events=%d->%d detail=%s" % (
                v["rule"], r["seed"], len(sc["events"]), len(small["events"]), (vv.get("detail") or "")[:300]))
    for kid, (k, path) in sorted(known_hits.items()):
        out_lines.append("KNOWN-FINDING: property=%s %s (replay=%s)" % (prop, k["what"], path))

    # ---- determinism self-test (sample): same seeds, fresh interpreter, other hash seed
    det = {"checked": 0, "mismatch": []}
    nsample = plan.get("det_sample", 6)
    sample = [r for r in results[:nsample]]
    if sample and not os.environ.get("VERIF_NO_DET"):
        want = {str(r["seed"]): r["digest"] for r in sample}
        pr = subprocess.run([PY, os.path.join(VERIF, "bin", "check"), prop, "--digests",
                             ",".join(str(r["seed"]) for r in sample), "--tier", tier],
                            capture_output=True, text=True, timeout=600,
                            env=dict(os.environ, PYTHONHASHSEED="1"))
        try:
            got = json.loads(pr.stdout.strip().splitlines()[-1])
        except Exception:
            got = {}
            harness_errors.append("determinism self-test produced no digests: %s %s" % (pr.stdout[-500:], pr.stderr[-1500:]))
        for s, d in want.items():
            det["checked"] += 1
            if got.get(s) != d:
                det["mismatch"].append(s)
        if det["mismatch"]:
            harness_errors.append("determinism self-test: digests differ for seeds %s" % det["mismatch"])

    wall = time.time() - t_start
    write_evidence(eng, prop, tier, base_seed, results, n_viol, known_hits, det, harness_errors,
                   wall, explore_s, jobs)
    for l in out_lines:
        print(l)
    if harness_errors:
        for h in harness_errors[:5]:
            print("HARNESS-ERROR %s" % h)
        return 3
    if n_viol:
        return 1
    print("OK property=%s tier=%s runs=%d wall=%.1fs" % (prop, tier, len(results), wall))
    return 0


def write_evidence(eng, prop, tier, seed, results, n_viol, known_hits, det, harness_errors, wall,
                   explore_s, jobs):
    counters = {}
    sigs = set()
    nontrivial_sigs = set()
    sim_seconds = 0.0
    steps = 0
    for r in results:
        for k, v in r.get("counters", {}).items():
            counters[k] = counters.get(k, 0) + v
        sigs.add(r["signature"])
        if r.get("nontrivial"):
            nontrivial_sigs.add(r["signature"])
        sim_seconds += r.get("sim_seconds", 0.0)
        steps += r.get("steps", 0)
    samples = [r["sample"] for r in results[:3] if r.get("sample") is not None]
    fault_counts = {k: v for k, v in sorted(counters.items()) if k.startswith(("fault.", "tf.", "handover.", "mut."))}
    probes = {k: v for k, v in sorted(counters.items()) if k.startswith(("probe.", "oracle."))}
    other = {}
    for r in results:
        for p, rule in r.get("other", []):
            other["%s/%s" % (p, rule)] = other.get("%s/%s" % (p, rule), 0) + 1
    ev = {
        "property_id": prop, "tier": tier, "seed": int(seed), "level": "exploration",
        "coverage": {
            "evaluations": len(results),
            "distinct_nontrivial": len(nontrivial_sigs),
            "rule": eng.RULE_TEXT.get(prop, eng.RULE_TEXT.get("*", "")),
            "samples": samples or [{"note": "no run completed"}],
            "exhaustive": False,
            "technique": "deterministic simulation with fault injection: seeded search over schedules and fault sequences",
            "distinct_run_signatures": len(sigs),
            "seeds": {"first": results[0]["seed"] if results else None, "last": results[-1]["seed"] if results else None,
                      "derivation": "VERIF_SEED*1000003 + run index"},
            "runs_per_hour": int(len(results) / explore_s * 3600) if explore_s > 0 else 0,
            "seeds_per_hour": int(len(results) / explore_s * 3600) if explore_s > 0 else 0,
            "workers": jobs,
            "simulated_seconds_covered": round(sim_seconds, 1),
            "scheduler_steps": steps,
            "faults_fired": fault_counts,
            "probes": probes,
            "counters": {k: v for k, v in sorted(counters.items()) if k not in fault_counts and k not in probes},
            "components": eng.COMPONENTS,
            "determinism_selftest": det,
            "known_findings_seen": sorted(known_hits.keys()),
            "other_properties_notes": other,
            "harness_errors": harness_errors[:3],
        },
        "assumptions": eng.ASSUMPTIONS.get(prop, eng.ASSUMPTIONS.get("*", [])),
        "wall_s": round(wall, 2),
        "violations": int(n_viol),
    }
    os.makedirs(os.path.join(OUT, "evidence"), exist_ok=True)
    with open(os.path.join(OUT, "evidence", "%s.json" % prop), "w") as f:
        json.dump(ev, f, indent=1, sort_keys=True, default=str)


def _sweep_stale_tmp(base):
    """Scratch directories of check processes that no longer exist (killed runs)."""
    import re
    import shutil
    try:
        names = os.listdir(base)
    except OSError:
        return
    for n in names:
        m = re.match(r"verif-tmp-(\d+)-", n)
        if m and not os.path.exists("/proc/%s" % m.group(1)):
            shutil.rmtree(os.path.join(base, n), ignore_errors=True)


def supervise(argv):
    """Run the check in a fresh interpreter (fixed hash seed) whose every temporary file - the harness's and
    the ones pysaml2 itself leaves behind - lives in one scratch directory that is removed afterwards."""
    import shutil
    import signal
    import subprocess
    import tempfile
    base = tempfile.gettempdir()
    _sweep_stale_tmp(base)
    tmp = tempfile.mkdtemp(prefix="verif-tmp-%d-" % os.getpid(), dir=base)
    env = dict(os.environ, TMPDIR=tmp, VERIF_TMP=tmp)
    env.setdefault("PYTHONHASHSEED", "0")
    env.setdefault("PYTHONWARNINGS", "ignore")

    def _pdeath():
        try:
            import ctypes
            ctypes.CDLL("libc.so.6").prctl(1, signal.SIGTERM)      # PR_SET_PDEATHSIG
        except Exception:
            pass
    p = subprocess.Popen([PY, os.path.join(VERIF, "bin", "check")] + list(argv), env=env, preexec_fn=_pdeath)

    def _forward(signum, frame):
        try:
            p.terminate()
        except Exception:
            pass
    for sg in (signal.SIGTERM, signal.SIGINT, signal.SIGHUP):
        signal.signal(sg, _forward)
    try:
        rc = p.wait()
    finally:
        shutil.rmtree(tmp, ignore_errors=True)
    if rc < 0:
        # killed by a signal: never report that as "held"
        return 128 - rc
    return rc


def main(argv):
    import argparse
    ap = argparse.ArgumentParser()
    ap.add_argument("prop")
    ap.add_argument("--tier", default=os.environ.get("VERIF_TIER", "quick"))
    ap.add_argument("--replay")
    ap.add_argument("--digests")
    ap.add_argument("--seed", type=int, default=None)
    ap.add_argument("--one", type=int, default=None, help="run one seed verbosely")
    a = ap.parse_args(argv)
    if os.environ.get("PYTHONHASHSEED") is None or not os.environ.get("VERIF_TMP"):
        return supervise(argv)
    sys.path.insert(0, VERIF)
    if a.replay:
        rp, res, hit = replay_file(a.replay)
        if hit:
            print("REPRODUCED property=%s rule=%s event=%s detail=%s" % (rp["property"], hit["rule"], hit.get("i"), hit.get("detail")))
            print("VIOLATION property=%s replay=%s" % (rp["property"], a.replay))
            return 1
        print("NOT-REPRODUCED property=%s rule=%s (violations now: %s)" % (
            rp["property"], rp["expect"]["rule"], [(v["prop"], v["rule"]) for v in res["violations"]]))
        return 0
    if a.digests:
        eng = load_engine(a.prop)
        out = {}
        for s in a.digests.split(","):
            sc = eng.generate(int(s), a.prop, a.tier)
            out[s] = eng.execute(sc)["digest"]
        print(json.dumps(out))
        return 0
    if a.one is not None:
        eng = load_engine(a.prop)
        sc = eng.generate(a.one, a.prop, a.tier)
        res = eng.execute(sc)
        print(json.dumps({k: v for k, v in res.items() if k != "sample"}, indent=1, default=str)[:6000])
        return 0
    seed = a.seed if a.seed is not None else int(os.environ.get("VERIF_SEED", "1"))
    return run_check(a.prop, a.tier, seed)
