"""Seams: every source of nondeterminism pysaml2 reads is rebound here, from the outside.

Nothing in /repo is changed.  After `saml2_tophat` has been imported, `install()` walks every
loaded `saml2_tophat*` module and replaces, *by identity*, any module global that

  * is the `time` module                      -> TimeProxy (no-argument forms read the sim clock)
  * is a clock function imported from `time`  -> the proxy's method
  * is `datetime.datetime`                    -> SimDatetime (utcnow()/now()/today() read the sim clock)
  * is the `datetime` module                  -> proxy whose .datetime is SimDatetime
  * is the `random` module                    -> RandomProxy (SystemRandom() is fed from the run's id stream)
  * is `subprocess.Popen`                     -> dispatcher: argv[0] == FAKE_BIN is served in-process by SimXmlsec

Walking by identity (rather than by a list of names) keeps the seam complete when a change to
the repository adds a clock read to another module.

The simulated epoch is 2031-03-01; a clock read that escaped the seam would put pysaml2 five
years in the past and make every fault-free login fail loudly (harness error, never a
VIOLATION).
"""
import calendar
import datetime as _real_datetime_mod
import os
import random as _real_random_mod
import subprocess as _real_subprocess
import sys
import time as _real_time
import warnings

REPO_SRC = os.environ.get("VERIF_REPO_SRC", "/repo/src")
HERE = os.path.dirname(os.path.abspath(__file__))
VERIF = os.path.dirname(HERE)
FIXTURES = os.path.join(VERIF, "fixtures")
FAKE_BIN = os.path.join(FIXTURES, "xmlsec1-sim")

SIM_EPOCH = calendar.timegm((2031, 3, 1, 12, 0, 0))  # 1930305600

os.environ["TZ"] = "UTC"
_real_time.tzset()


def set_tz(tz):
    """The local time zone of the simulated deployment (a POSIX TZ string such as 'CET-1': no tzdata
    needed).  Everything UTC-based must be unaffected by it; it is part of the scenario."""
    os.environ["TZ"] = tz
    _real_time.tzset()


class _Ctx(object):
    """What the seams read.  One world at a time per process."""
    world = None
    node = None          # name of the node whose code is currently executing
    escaped_sleeps = 0

    def now(self):
        w = self.world
        if w is None:
            return float(SIM_EPOCH)
        return w.clock.now(self.node)

    def id_rng(self):
        w = self.world
        if w is None:
            return _FALLBACK_RNG
        return w.ids.next_rng()


CTX = _Ctx()
_FALLBACK_RNG = _real_random_mod.Random(0)


class TimeProxy(object):
    def __init__(self, real):
        self._real = real

    def __getattr__(self, name):
        return getattr(self._real, name)

    def time(self):
        return CTX.now()

    def gmtime(self, secs=None):
        return self._real.gmtime(CTX.now() if secs is None else secs)

    def localtime(self, secs=None):
        return self._real.localtime(CTX.now() if secs is None else secs)

    def strftime(self, fmt, t=None):
        if t is None:
            t = self.localtime()
        return self._real.strftime(fmt, t)

    def ctime(self, secs=None):
        return self._real.ctime(CTX.now() if secs is None else secs)

    def asctime(self, t=None):
        return self._real.asctime(self.localtime() if t is None else t)

    def monotonic(self):
        return CTX.now()

    def sleep(self, secs):
        # nothing in the exercised code sleeps; count it so evidence can show an escape
        CTX.escaped_sleeps += 1
        w = CTX.world
        if w is not None:
            w.clock.advance(secs)


TIME_PROXY = TimeProxy(_real_time)
_REAL_DATETIME = _real_datetime_mod.datetime


class SimDatetime(_REAL_DATETIME):
    @classmethod
    def utcnow(cls):
        ts = CTX.now()
        base = _REAL_DATETIME(1970, 1, 1) + _real_datetime_mod.timedelta(seconds=ts)
        return cls(base.year, base.month, base.day, base.hour, base.minute,
                   base.second, base.microsecond)

    @classmethod
    def now(cls, tz=None):
        n = cls.utcnow()
        if tz is not None:
            return n.replace(tzinfo=_real_datetime_mod.timezone.utc).astimezone(tz)
        lt = _real_time.localtime(CTX.now())        # naive local time, as the real datetime.now()
        return cls(lt.tm_year, lt.tm_mon, lt.tm_mday, lt.tm_hour, lt.tm_min, min(lt.tm_sec, 59), n.microsecond)

    @classmethod
    def today(cls):
        return cls.now()


class _DatetimeModuleProxy(object):
    datetime = SimDatetime

    def __getattr__(self, name):
        return getattr(_real_datetime_mod, name)


DATETIME_MOD_PROXY = _DatetimeModuleProxy()


class RandomProxy(object):
    """Stands in for the `random` module inside saml2_tophat."""

    def SystemRandom(self, *a):
        return CTX.id_rng()

    def Random(self, *a):
        return CTX.id_rng()

    def __getattr__(self, name):
        return getattr(CTX.id_rng(), name)


RANDOM_PROXY = RandomProxy()
_REAL_POPEN = _real_subprocess.Popen

try:
    import requests as _real_requests
except Exception:  # pragma: no cover
    _real_requests = None


class SimHttpResponse(object):
    def __init__(self, status_code=200, content=b"", headers=None):
        self.status_code = status_code
        self.content = content if isinstance(content, bytes) else content.encode("utf-8")
        self.headers = headers or {}
        self.url = ""

    @property
    def text(self):
        return self.content.decode("utf-8", "replace")


class RequestsProxy(object):
    """Stands in for the `requests` module inside saml2_tophat: every HTTP exchange goes to the
    simulated network of the current world (world.net(method, url, **kw) -> SimHttpResponse or
    raises requests.ConnectionError); without one, the connection fails."""

    def __getattr__(self, name):
        return getattr(_real_requests, name)

    def request(self, method, url, **kwargs):
        w = CTX.world
        net = getattr(w, "net", None) if w is not None else None
        if net is None:
            raise _real_requests.ConnectionError("verif: no simulated network for %s" % url)
        return net(method, url, **kwargs)

    def get(self, url, **kwargs):
        return self.request("GET", url, **kwargs)

    def post(self, url, **kwargs):
        return self.request("POST", url, **kwargs)


REQUESTS_PROXY = RequestsProxy()


def sim_popen(com_list, *args, **kwargs):
    if isinstance(com_list, (list, tuple)) and com_list and com_list[0] == FAKE_BIN:
        w = CTX.world
        if w is None:
            from simcore.simxmlsec import DEFAULT_TOOL
            return DEFAULT_TOOL.spawn(list(com_list))
        return w.tool.spawn(list(com_list))
    return _REAL_POPEN(com_list, *args, **kwargs)


_TIME_FUNCS = {}
for _n in ("time", "gmtime", "localtime", "strftime", "ctime", "asctime", "monotonic", "sleep"):
    _TIME_FUNCS[id(getattr(_real_time, _n))] = getattr(TIME_PROXY, _n)

_INSTALLED = {"nmods": -1, "rebound": []}


def install():
    """(Re)bind the seams in every loaded saml2_tophat module.  Idempotent and cheap."""
    mods = [(n, m) for n, m in list(sys.modules.items())
            if m is not None and (n == "saml2_tophat" or n.startswith("saml2_tophat."))]
    if len(mods) == _INSTALLED["nmods"]:
        return _INSTALLED["rebound"]
    rebound = []
    for name, mod in mods:
        d = getattr(mod, "__dict__", None)
        if not d:
            continue
        for gname, val in list(d.items()):
            new = None
            if val is _real_time:
                new = TIME_PROXY
            elif val is _REAL_DATETIME:
                new = SimDatetime
            elif val is _real_datetime_mod:
                new = DATETIME_MOD_PROXY
            elif val is _real_random_mod:
                new = RANDOM_PROXY
            elif val is _REAL_POPEN:
                new = sim_popen
            elif _real_requests is not None and val is _real_requests:
                new = REQUESTS_PROXY
            elif id(val) in _TIME_FUNCS and getattr(val, "__module__", None) == "time":
                new = _TIME_FUNCS[id(val)]
            if new is not None:
                d[gname] = new
                rebound.append("%s.%s" % (name, gname))
    _INSTALLED["nmods"] = len(mods)
    _INSTALLED["rebound"] = sorted(set(_INSTALLED["rebound"]) | set(rebound))
    return _INSTALLED["rebound"]


def bootstrap():
    """Put the repository's *current working tree* first on sys.path, import it, install seams."""
    if REPO_SRC not in sys.path:
        sys.path.insert(0, REPO_SRC)
    if VERIF not in sys.path:
        sys.path.insert(1, VERIF)
    warnings.filterwarnings("ignore")
    warnings.showwarning = lambda *a, **k: None
    import logging
    logging.disable(logging.CRITICAL)
    import saml2_tophat  # noqa
    origin = os.path.dirname(os.path.abspath(saml2_tophat.__file__))
    want = os.path.join(os.path.abspath(REPO_SRC), "saml2_tophat")
    if origin != want:
        raise RuntimeError("saml2_tophat imported from %s, expected %s" % (origin, want))
    # modules the engines use; imported up front so that one walk covers them
    import saml2_tophat.client  # noqa
    import saml2_tophat.server  # noqa
    import saml2_tophat.metadata  # noqa
    import saml2_tophat.mdstore  # noqa
    import saml2_tophat.algsupport  # noqa
    import saml2_tophat.ident  # noqa
    import saml2_tophat.cache  # noqa
    import saml2_tophat.population  # noqa
    import saml2_tophat.cert  # noqa
    warnings.filterwarnings("ignore")
    warnings.showwarning = lambda *a, **k: None
    return install()


# --- socket tripwire: the simulator never opens a socket --------------------------------
import socket as _socket

SOCKET_ATTEMPTS = []
_real_connect = _socket.socket.connect


def _no_connect(self, addr):
    SOCKET_ATTEMPTS.append(repr(addr))
    raise OSError("verif: network access attempted inside the simulator: %r" % (addr,))


def install_socket_tripwire():
    _socket.socket.connect = _no_connect
