"""SimXmlsec: in-process stand-in for the `xmlsec1` executable (absent in this sandbox).

STUB - stated plainly.  It honours the argv / file / stdout / stderr / exit-code contract that
`saml2_tophat.sigver.CryptoBackendXmlSec1` relies on, with semantics written from the XML-DSig
and XML-Enc processing models and the xmlsec1 command-line documentation:

  --sign / --verify   node selected by `--id-attr:<A> <ns>:<Name>` + `--node-id X` (first <Name>
                      element whose attribute A equals X; without --node-id the document root);
                      the operation applies to the first ds:Signature in that node's subtree
                      (document order); every Reference is a same-document reference ("" or
                      "#id", ids only on <Name> elements, attribute A); enveloped-signature
                      transform removes that Signature; digest = DigestMethod hash of the
                      canonical form; SignatureValue = real RSA PKCS#1 v1.5 over the canonical
                      SignedInfo with the SignatureMethod hash.
  --encrypt           node selected by --node-xpath (chain of local-name() steps) is replaced by
                      the EncryptedData template, filled: session key 3DES-CBC (des-192) or
                      AES-CBC, wrapped RSA-1_5 for the certificate given.
  --decrypt           first EncryptedData in the document is decrypted with the private key
                      given; failure to unwrap => exit 1, empty output.
  --version / --list-transforms   fixed banners.

Canonical form: Python's C14N 2.0 with prefix rewriting (NOT exclusive C14N 1.0).  Self-consistent,
insensitive to the namespace-prefix renaming pysaml2's re-serialisation performs; not
interoperable with real xmlsec1.  All randomness (session keys, IVs, RSA type-2 padding) comes
from the run's `crypto` PRNG stream, so wire bytes are a pure function of the seed.

Every invocation is recorded (what a healthy tool answers, what was emitted under an injected
fault), which is what the C20 oracle reads.
"""
import base64
import hashlib
import io
import os
import random
import re
import xml.etree.ElementTree as ET

from cryptography import x509
from cryptography.hazmat.primitives import hashes, serialization
from cryptography.hazmat.primitives.asymmetric import padding
from cryptography.hazmat.primitives.ciphers import Cipher, algorithms, modes
try:
    from cryptography.hazmat.decrepit.ciphers.algorithms import TripleDES
except Exception:  # pragma: no cover
    TripleDES = algorithms.TripleDES

DS = "http://www.w3.org/2000/09/xmldsig#"
XENC = "http://www.w3.org/2001/04/xmlenc#"
ENVELOPED = "http://www.w3.org/2000/09/xmldsig#enveloped-signature"

SIG_HASH = {
    "http://www.w3.org/2000/09/xmldsig#rsa-sha1": hashes.SHA1,
    "http://www.w3.org/2001/04/xmldsig-more#rsa-sha224": hashes.SHA224,
    "http://www.w3.org/2001/04/xmldsig-more#rsa-sha256": hashes.SHA256,
    "http://www.w3.org/2001/04/xmldsig-more#rsa-sha384": hashes.SHA384,
    "http://www.w3.org/2001/04/xmldsig-more#rsa-sha512": hashes.SHA512,
}
DIGEST_HASH = {
    "http://www.w3.org/2000/09/xmldsig#sha1": "sha1",
    "http://www.w3.org/2001/04/xmldsig-more#sha224": "sha224",
    "http://www.w3.org/2001/04/xmlenc#sha256": "sha256",
    "http://www.w3.org/2001/04/xmldsig-more#sha384": "sha384",
    "http://www.w3.org/2001/04/xmlenc#sha512": "sha512",
}
TRIPLEDES_CBC = "http://www.w3.org/2001/04/xmlenc#tripledes-cbc"
AES_CBC = {"http://www.w3.org/2001/04/xmlenc#aes128-cbc": 16,
           "http://www.w3.org/2001/04/xmlenc#aes192-cbc": 24,
           "http://www.w3.org/2001/04/xmlenc#aes256-cbc": 32}

VERSION_BANNER = b"xmlsec1 1.2.99 (verif-sim)\n"
TRANSFORMS_BANNER = (
    b"Registered transforms klasses:\n"
    b"\"base64\",\"c14n\",\"exc-c14n\",\"enveloped-signature\",\"aes128-cbc\",\"tripledes-cbc\","
    b"\"rsa-sha1\",\"rsa-sha224\",\"rsa-sha256\",\"rsa-sha384\",\"rsa-sha512\","
    b"\"hmac-sha1\",\"hmac-sha224\",\"hmac-sha256\",\"hmac-sha384\",\"hmac-sha512\",\"rsa-1_5\"\n")


class ToolError(Exception):
    """A healthy tool's own failure (bad document, node not found, ...)."""


# ---------------------------------------------------------------------------- key material

_KEY_CACHE = {}
_CERT_CACHE = {}


def load_private_key(data):
    h = hashlib.sha1(data).digest()
    k = _KEY_CACHE.get(h)
    if k is None:
        k = serialization.load_pem_private_key(data, None)
        _KEY_CACHE[h] = k
    return k


def load_cert_public_key(data):
    h = hashlib.sha1(data).digest()
    k = _CERT_CACHE.get(h)
    if k is None:
        try:
            k = x509.load_pem_x509_certificate(data).public_key()
        except Exception:
            k = serialization.load_pem_public_key(data)
        _CERT_CACHE[h] = k
    return k


def pub_fingerprint(pub):
    n = pub.public_numbers().n
    return hashlib.sha1(str(n).encode()).hexdigest()[:12]


# ---------------------------------------------------------------------------- XML helpers

def _parse(data):
    if isinstance(data, str):
        data = data.encode("utf-8")
    try:
        return ET.fromstring(data)
    except ET.ParseError as e:
        raise ToolError("failed to parse xml: %s" % e)


def _serialize(root):
    return b'<?xml version="1.0" encoding="UTF-8"?>\n' + ET.tostring(root, encoding="utf-8",
                                                                       xml_declaration=False)


def _split_node_name(node_name):
    # "<namespace-uri>:<local>"  (the namespace itself contains colons)
    if ":" in node_name:
        ns, local = node_name.rsplit(":", 1)
        return "{%s}%s" % (ns, local)
    return node_name


def _copy_without(elem, skip):
    new = ET.Element(elem.tag, dict(elem.attrib))
    new.text = elem.text
    last = None
    for ch in elem:
        if ch is skip:
            if ch.tail:
                if last is None:
                    new.text = (new.text or "") + ch.tail
                else:
                    last.tail = (last.tail or "") + ch.tail
            continue
        c = _copy_without(ch, skip)
        c.tail = ch.tail
        new.append(c)
        last = c
    return new


def c14n(elem, skip=None):
    cp = _copy_without(elem, skip)
    txt = ET.tostring(cp, encoding="unicode")
    return ET.canonicalize(txt, rewrite_prefixes=True).encode("utf-8")


def _find_first(root, tag):
    if root.tag == tag:
        return root
    for e in root.iter(tag):
        return e
    return None


def _check_unique_ids(root, tag, id_attr):
    """`--id-attr:<name> <node>` registers the attribute of every such element as an ID; xmlsec1 gives up when two
    of them carry the same value ("Error: duplicate ID attribute")."""
    seen = set()
    for e in root.iter(tag):
        v = e.get(id_attr)
        if v is None:
            continue
        if v in seen:
            raise ToolError('duplicate ID attribute "%s"' % v)
        seen.add(v)


def _select_node(root, tag, id_attr, node_id):
    if node_id is None:
        return root
    for e in root.iter(tag):
        if e.get(id_attr) == node_id:
            return e
    return None


def _resolve_reference(root, uri, tag, id_attr):
    if uri is None or uri == "":
        return root
    if not uri.startswith("#"):
        raise ToolError("reference uri %r not enabled (empty,same-doc)" % uri)
    rid = uri[1:]
    for e in root.iter(tag):
        if e.get(id_attr) == rid:
            return e
    raise ToolError("failed to resolve reference %r" % uri)


def _q(ns, local):
    return "{%s}%s" % (ns, local)


def _digest_reference(root, sig, ref, tag, id_attr):
    target = _resolve_reference(root, ref.get("URI"), tag, id_attr)
    skip = None
    tr = ref.find(_q(DS, "Transforms"))
    if tr is not None:
        for t in tr.findall(_q(DS, "Transform")):
            if t.get("Algorithm") == ENVELOPED:
                skip = sig
    dm = ref.find(_q(DS, "DigestMethod"))
    if dm is None or dm.get("Algorithm") not in DIGEST_HASH:
        raise ToolError("unsupported digest method")
    data = c14n(target, skip)
    return base64.b64encode(hashlib.new(DIGEST_HASH[dm.get("Algorithm")], data).digest()).decode()


def _signature_parts(sig):
    si = sig.find(_q(DS, "SignedInfo"))
    sv = sig.find(_q(DS, "SignatureValue"))
    if si is None or sv is None:
        raise ToolError("malformed Signature")
    sm = si.find(_q(DS, "SignatureMethod"))
    if sm is None or sm.get("Algorithm") not in SIG_HASH:
        raise ToolError("unsupported signature method")
    refs = si.findall(_q(DS, "Reference"))
    if not refs:
        raise ToolError("no Reference")
    return si, sv, SIG_HASH[sm.get("Algorithm")], refs


def sign_document(data, key, node_name, id_attr, node_id):
    root = _parse(data)
    tag = _split_node_name(node_name)
    node = _select_node(root, tag, id_attr, node_id)
    if node is None:
        raise ToolError("failed to find node with id %r" % node_id)
    sig = _find_first(node, _q(DS, "Signature"))
    if sig is None:
        raise ToolError("failed to find Signature template")
    si, sv, hcls, refs = _signature_parts(sig)
    for ref in refs:
        dv = ref.find(_q(DS, "DigestValue"))
        if dv is None:
            raise ToolError("no DigestValue")
        dv.text = _digest_reference(root, sig, ref, tag, id_attr)
    sv.text = base64.b64encode(key.sign(c14n(si), padding.PKCS1v15(), hcls())).decode()
    return _serialize(root)


def verify_document(data, pub, node_name, id_attr, node_id):
    """-> (ok, n_ok, n_all).  Raises ToolError for structural failures."""
    root = _parse(data)
    tag = _split_node_name(node_name)
    _check_unique_ids(root, tag, id_attr)
    node = _select_node(root, tag, id_attr, node_id)
    if node is None:
        raise ToolError("failed to find node with id %r" % node_id)
    sig = _find_first(node, _q(DS, "Signature"))
    if sig is None:
        raise ToolError("failed to find Signature node")
    si, sv, hcls, refs = _signature_parts(sig)
    n_ok = 0
    verify_document.last_refs = [(r_.get("URI") or "") for r_ in refs]
    for ref in refs:
        dv = ref.find(_q(DS, "DigestValue"))
        want = "".join((dv.text or "").split()) if dv is not None else ""
        if _digest_reference(root, sig, ref, tag, id_attr) == want:
            n_ok += 1
    try:
        raw = base64.b64decode("".join((sv.text or "").split()), validate=True)
        pub.verify(raw, c14n(si), padding.PKCS1v15(), hcls())
        sig_ok = True
    except Exception:
        sig_ok = False
    return (sig_ok and n_ok == len(refs)), n_ok, len(refs)


_STEP = re.compile(r"""/\*\[local-name\(\)=(['"])([^'"]+)\1\]""")


def _xpath_select(root, xpath):
    steps = [m.group(2) for m in _STEP.finditer(xpath or "")]
    if not steps:
        raise ToolError("unsupported xpath %r" % xpath)

    def local(e):
        return e.tag.rsplit("}", 1)[-1]

    if local(root) != steps[0]:
        raise ToolError("xpath root mismatch")
    parent, cur = None, root
    for st in steps[1:]:
        nxt = None
        for ch in cur:
            if local(ch) == st:
                nxt = ch
                break
        if nxt is None:
            raise ToolError("xpath step %s not found" % st)
        parent, cur = cur, nxt
    if parent is None:
        raise ToolError("cannot replace the root")
    return parent, cur


def _pad_block(data, bs, rng):
    n = bs - (len(data) % bs)
    return data + bytes(rng.randrange(256) for _ in range(n - 1)) + bytes([n])


def _unpad_block(data, bs):
    if not data or len(data) % bs:
        raise ToolError("bad ciphertext length")
    n = data[-1]
    if n < 1 or n > bs:
        raise ToolError("bad padding")
    return data[:-n]


def _rsa_wrap(pub, key, rng):
    nums = pub.public_numbers()
    k = (nums.n.bit_length() + 7) // 8
    ps = bytes(rng.randrange(1, 256) for _ in range(k - 3 - len(key)))
    em = b"\x00\x02" + ps + b"\x00" + key
    return pow(int.from_bytes(em, "big"), nums.e, nums.n).to_bytes(k, "big")


def _rsa_unwrap(priv, blob):
    pn = priv.private_numbers()
    n = pn.public_numbers.n
    k = (n.bit_length() + 7) // 8
    c = int.from_bytes(blob, "big")
    if len(blob) != k or c >= n:
        raise ToolError("key transport: bad length")
    # CRT
    m1 = pow(c, pn.dmp1, pn.p)
    m2 = pow(c, pn.dmq1, pn.q)
    h = (pn.iqmp * (m1 - m2)) % pn.p
    em = (m2 + h * pn.q).to_bytes(k, "big")
    if em[0:2] != b"\x00\x02":
        raise ToolError("key transport: failed to decrypt")
    try:
        sep = em.index(b"\x00", 2)
    except ValueError:
        raise ToolError("key transport: failed to decrypt")
    if sep < 10:
        raise ToolError("key transport: failed to decrypt")
    return em[sep + 1:]


def _sym(alg_url, key, iv):
    if alg_url == TRIPLEDES_CBC:
        if len(key) != 24:
            raise ToolError("bad session key size")
        return Cipher(TripleDES(key), modes.CBC(iv)), 8
    if alg_url in AES_CBC:
        if len(key) != AES_CBC[alg_url]:
            raise ToolError("bad session key size")
        return Cipher(algorithms.AES(key), modes.CBC(iv)), 16
    raise ToolError("unsupported encryption method %r" % alg_url)


def encrypt_document(data, template, pub, session_key_type, xpath, rng):
    root = _parse(data)
    tmpl = _parse(template)
    if tmpl.tag != _q(XENC, "EncryptedData"):
        raise ToolError("template is not EncryptedData")
    parent, target = _xpath_select(root, xpath)
    em = tmpl.find(_q(XENC, "EncryptionMethod"))
    alg = em.get("Algorithm") if em is not None else TRIPLEDES_CBC
    ksize = 24 if alg == TRIPLEDES_CBC else AES_CBC.get(alg, 0)
    if not ksize:
        raise ToolError("unsupported encryption method")
    skey = bytes(rng.randrange(256) for _ in range(ksize))
    tcopy = _copy_without(target, None)
    plain = ET.tostring(tcopy, encoding="utf-8")
    bs = 8 if alg == TRIPLEDES_CBC else 16
    iv = bytes(rng.randrange(256) for _ in range(bs))
    cipher, _ = _sym(alg, skey, iv)
    enc = cipher.encryptor()
    ct = iv + enc.update(_pad_block(plain, bs, rng)) + enc.finalize()
    ek = tmpl.find(".//" + _q(XENC, "EncryptedKey"))
    if ek is None:
        raise ToolError("template has no EncryptedKey")
    ekcv = ek.find(_q(XENC, "CipherData") + "/" + _q(XENC, "CipherValue"))
    cv = tmpl.find(_q(XENC, "CipherData") + "/" + _q(XENC, "CipherValue"))
    if ekcv is None or cv is None:
        raise ToolError("template has no CipherValue")
    ekcv.text = base64.b64encode(_rsa_wrap(pub, skey, rng)).decode()
    cv.text = base64.b64encode(ct).decode()
    idx = list(parent).index(target)
    tmpl.tail = target.tail
    parent.remove(target)
    parent.insert(idx, tmpl)
    return _serialize(root), plain, cv.text


def decrypt_document(data, priv):
    root = _parse(data)
    parent_of = {c: p for p in root.iter() for c in p}
    ed = None
    for e in root.iter(_q(XENC, "EncryptedData")):
        ed = e
        break
    if ed is None:
        raise ToolError("no EncryptedData")
    em = ed.find(_q(XENC, "EncryptionMethod"))
    alg = em.get("Algorithm") if em is not None else TRIPLEDES_CBC
    ek = ed.find(".//" + _q(XENC, "EncryptedKey"))
    cv = ed.find(_q(XENC, "CipherData") + "/" + _q(XENC, "CipherValue"))
    if ek is None or cv is None:
        raise ToolError("malformed EncryptedData")
    ekcv = ek.find(_q(XENC, "CipherData") + "/" + _q(XENC, "CipherValue"))
    try:
        blob = base64.b64decode("".join((ekcv.text or "").split()), validate=True)
        ct = base64.b64decode("".join((cv.text or "").split()), validate=True)
    except Exception:
        raise ToolError("bad base64 in CipherValue")
    skey = _rsa_unwrap(priv, blob)
    bs = 8 if alg == TRIPLEDES_CBC else 16
    if len(ct) < 2 * bs:
        raise ToolError("ciphertext too short")
    cipher, _ = _sym(alg, skey, ct[:bs])
    dec = cipher.decryptor()
    plain = _unpad_block(dec.update(ct[bs:]) + dec.finalize(), bs)
    try:
        new = ET.fromstring(plain)
    except ET.ParseError:
        raise ToolError("decrypted data is not xml")
    parent = parent_of.get(ed)
    if parent is None:
        return _serialize(new), plain
    idx = list(parent).index(ed)
    new.tail = ed.tail
    parent.remove(ed)
    parent.insert(idx, new)
    return _serialize(root), plain


# ---------------------------------------------------------------------------- the "process"

class Result(object):
    __slots__ = ("rc", "out", "err", "output", "write_output")

    def __init__(self, rc=0, out=b"", err=b"", output=None):
        self.rc = rc
        self.out = out
        self.err = err
        self.output = output       # bytes to put into --output, None: leave the file alone
        self.write_output = output is not None


class FakeProc(object):
    def __init__(self, tool, argv, inv):
        self.tool = tool
        self.argv = argv
        self.inv = inv
        self.returncode = None
        self.pid = 4242

    def communicate(self, input=None, timeout=None):
        res = self.tool._run(self.argv, self.inv)
        self.returncode = res.rc
        return res.out, res.err

    def wait(self, timeout=None):
        if self.returncode is None:
            self.communicate()
        return self.returncode

    def poll(self):
        return self.returncode

    def kill(self):
        pass

    terminate = kill


def _argval(argv, flag):
    if flag in argv:
        i = argv.index(flag)
        if i + 1 < len(argv):
            return argv[i + 1]
    return None


class SimXmlsec(object):
    def __init__(self, crypto_rng=None, keyring=None):
        self.rng = crypto_rng or random.Random(0)
        self.keyring = keyring or {}        # fingerprint -> label
        self.invocations = []
        self.plaintexts = {}                # outer CipherValue text -> plaintext xml (bytes)
        self.fault_hook = None              # f(inv) -> fault dict or None
        self.post_hook = None               # f(inv, Result) -> None   (hand-over corruption)
        self.tag = None                     # set by the harness: which library call is running
        self.counts = {}

    # ---- bookkeeping
    def label(self, pub):
        fp = pub_fingerprint(pub)
        return self.keyring.get(fp, fp)

    def spawn(self, argv):
        op = "other"
        for cand in ("--sign", "--verify", "--encrypt", "--decrypt", "--version", "--list-transforms"):
            if cand in argv:
                op = cand[2:]
                break
        from simcore.seams import CTX
        inv = {"n": len(self.invocations), "op": op, "node": CTX.node, "tag": self.tag,
               "ord": sum(1 for i in self.invocations if i["tag"] == self.tag and i["op"] == op),
               "node_id": _argval(argv, "--node-id"), "fault": None, "healthy_ok": None,
               "genuine_ok": False}
        self.invocations.append(inv)
        self.counts[op] = self.counts.get(op, 0) + 1
        if self.fault_hook is not None and op in ("sign", "verify", "encrypt", "decrypt"):
            f = self.fault_hook(inv)
            if f:
                inv["fault"] = f["mode"]
                if f["mode"].startswith("spawn:"):
                    exc = {"spawn:enoent": FileNotFoundError(2, "No such file or directory", argv[0]),
                           "spawn:eperm": PermissionError(13, "Permission denied", argv[0]),
                           "spawn:eagain": OSError(11, "Resource temporarily unavailable"),
                           "spawn:enomem": MemoryError()}[f["mode"]]
                    raise exc
                inv["_fault"] = f
        return FakeProc(self, argv, inv)

    # ---- execution
    def _healthy(self, argv, inv):
        op = inv["op"]
        if op == "version":
            # (run knob: the release the installed tool reports; nothing else about the tool depends on it)
            return Result(0, getattr(self, "version_banner", None) or VERSION_BANNER, b"")
        if op == "list-transforms":
            return Result(0, TRANSFORMS_BANNER, b"")
        id_attr = "ID"
        node_name = None
        for i, a in enumerate(argv):
            if a.startswith("--id-attr:"):
                id_attr = a.split(":", 1)[1]
                if i + 1 < len(argv):
                    node_name = argv[i + 1]
        infile = argv[-1]
        try:
            with open(infile, "rb") as f:
                data = f.read()
        except OSError as e:
            return Result(1, b"", ("Error: failed to read %s: %s\n" % (infile, e)).encode())
        try:
            if op == "sign":
                with open(_argval(argv, "--privkey-pem"), "rb") as f:
                    key = load_private_key(f.read())
                inv["key"] = self.label(key.public_key())
                inv["node_name"] = node_name
                out = sign_document(data, key, node_name, id_attr, inv["node_id"])
                inv["healthy_ok"] = True
                return Result(0, b"", b"", out)
            if op == "verify":
                cert_arg = _argval(argv, "--pubkey-cert-pem") or _argval(argv, "--pubkey-cert-der")
                with open(cert_arg, "rb") as f:
                    pub = load_cert_public_key(f.read())
                inv["key"] = self.label(pub)
                inv["node_name"] = node_name
                verify_document.last_refs = []
                ok, n_ok, n_all = verify_document(data, pub, node_name, id_attr, inv["node_id"])
                inv["healthy_ok"] = ok
                # which elements this verification vouches for (same-document reference targets)
                inv["covers"] = [u[1:] for u in verify_document.last_refs if u.startswith("#")]
                tail = ("SignedInfo References (ok/all): %d/%d\nManifests References (ok/all): 0/0\n"
                        % (n_ok, n_all)).encode()
                if ok:
                    return Result(0, b"", b"OK\n" + tail, b"")
                return Result(1, b"", b"FAIL\n" + tail + b"Error: failed to verify file \"%s\"\n"
                              % infile.encode(), b"")
            if op == "encrypt":
                with open(_argval(argv, "--pubkey-cert-pem"), "rb") as f:
                    pub = load_cert_public_key(f.read())
                inv["key"] = self.label(pub)
                with open(_argval(argv, "--xml-data"), "rb") as f:
                    xml = f.read()
                out, plain, cvtext = encrypt_document(xml, data, pub, _argval(argv, "--session-key"),
                                                      _argval(argv, "--node-xpath"), self.rng)
                self.plaintexts[cvtext] = plain
                inv["healthy_ok"] = True
                inv["cipher"] = cvtext[:24]
                return Result(0, b"", b"", out)
            if op == "decrypt":
                with open(_argval(argv, "--privkey-pem"), "rb") as f:
                    key = load_private_key(f.read())
                inv["key"] = self.label(key.public_key())
                out, plain = decrypt_document(data, key)
                inv["healthy_ok"] = True
                return Result(0, b"", b"", out)
        except ToolError as e:
            inv["healthy_ok"] = False
            return Result(1, b"", ("Error: %s\n" % e).encode(), b"")
        except Exception as e:  # key file unreadable etc.
            inv["healthy_ok"] = False
            return Result(1, b"", ("Error: %s: %s\n" % (type(e).__name__, e)).encode(), b"")
        return Result(1, b"", b"Error: unknown command\n")

    def _run(self, argv, inv):
        res = self._healthy(argv, inv)
        f = inv.pop("_fault", None)
        if f is not None:
            from simcore.toolfaults import apply_fault
            res = apply_fault(f, res, inv)
        else:
            inv["genuine_ok"] = bool(inv["healthy_ok"])
        if self.post_hook is not None:
            self.post_hook(inv, res)
        outpath = _argval(argv, "--output")
        if outpath and res.write_output:
            if res.output == "__unlink__":
                try:
                    os.unlink(outpath)
                except OSError:
                    pass
            else:
                with open(outpath, "wb") as fh:
                    fh.write(res.output)
        if isinstance(res.rc, BaseException):
            raise res.rc
        return res


DEFAULT_TOOL = SimXmlsec()
