"""Fault catalogue for the external tool (C20).  Every mode is something a real helper process
can do *without reporting success*: the statement of C20 excludes a tool that exits 0 and
prints a clean `OK` line for something that did not verify (that is a lying tool, not a failing
one), so no mode here ever produces exit code >= 0 together with a stderr line exactly `OK`
unless the healthy answer was already a failure ... in which case there is no `OK` anyway.
"""
import errno
import random

from simcore.simxmlsec import Result

VERIFY_MODES = ["exit1", "exit2-quiet", "signal9", "signal11", "empty", "stderr-trunc", "stderr-garble",
                "ok-embedded", "ok-stdout", "undecodable", "communicate-raise",
                "spawn:enoent", "spawn:eperm", "spawn:eagain", "spawn:enomem"]
PRODUCE_MODES = ["exit1", "signal9", "empty", "out-missing", "out-empty", "communicate-raise",
                 "spawn:enoent", "spawn:eperm", "spawn:eagain", "spawn:enomem", "signal-out-trunc"]
DECRYPT_MODES = PRODUCE_MODES + ["out-trunc", "out-garble", "signal-out-garble"]

OK_LOOKALIKES = [b"NOT OK\n", b"OK?\n", b"xOKx\n", b" OK\n", b"OK \n", b"ok\n", b"OKAY\n", b"O K\n",
                 b"OK\x00\n", b"\tOK\n", b"FAIL OK\n", b"OK: no\n", b"Signature is OK\n", b"KO\n"]


def modes_for(op):
    if op == "verify":
        return VERIFY_MODES
    if op == "decrypt":
        return DECRYPT_MODES
    return PRODUCE_MODES


def apply_fault(f, healthy, inv):
    mode = f["mode"]
    r = random.Random(f.get("variant", 0))
    inv["genuine_ok"] = False
    op = inv["op"]
    produce = op in ("sign", "encrypt", "decrypt")
    if mode == "exit1":
        return Result(1, b"", b"Error: xmlSecCryptoAppInit failed\nError: initialization failed\n",
                      b"" if produce else None)
    if mode == "exit2-quiet":
        return Result(2, b"", b"", None)
    if mode == "signal9":
        return Result(-9, b"", b"", b"" if produce else None)
    if mode == "signal11":
        # died half-way through writing its report
        return Result(-11, b"", b"O", b"" if produce else None)
    if mode == "empty":
        return Result(0, b"", b"", b"" if produce else None)
    if mode == "stderr-trunc":
        err = healthy.err[: r.randrange(0, 2)] if healthy.err else b""
        return Result(healthy.rc if healthy.rc else 0, b"", err, None)
    if mode == "stderr-garble":
        err = bytes(r.choice(b"KOok \n\tFAIL0123") for _ in range(r.randrange(1, 24)))
        # never let the garbling produce a clean OK line by accident
        err = b"\n".join(l + b"~" if l == b"OK" else l for l in err.split(b"\n"))
        return Result(0, b"", err, None)
    if mode == "ok-embedded":
        return Result(0, b"", r.choice(OK_LOOKALIKES) +
                      b"SignedInfo References (ok/all): 1/1\n", None)
    if mode == "ok-stdout":
        return Result(0, b"OK\nSignedInfo References (ok/all): 1/1\n", b"", None)
    if mode == "undecodable":
        return Result(0, b"", b"\xff\xfeOK\xff\n\xc3\x28\n", None)
    if mode == "communicate-raise":
        return Result(OSError(errno.EIO, "Input/output error"), b"", b"", None)
    if mode == "out-missing":
        return Result(0, b"", b"", "__unlink__")
    if mode == "out-empty":
        return Result(0, b"", b"", b"")
    if mode == "signal-out-trunc":
        # killed while it was writing its result: the output file holds the first part only
        out = healthy.output if isinstance(healthy.output, bytes) else b""
        cut = r.randrange(1, max(2, len(out))) if out else 0
        return Result(-r.choice([9, 11, 6, 15]), b"", b"", out[:cut])
    if mode == "signal-out-garble":
        # crashed (SIGSEGV / SIGABRT) after scribbling over its own output buffer
        out = bytearray(healthy.output if isinstance(healthy.output, bytes) else b"")
        for _ in range(1 + len(out) // 40):
            if out:
                out[r.randrange(len(out))] = r.randrange(256)
        return Result(-r.choice([11, 6]), b"", b"", bytes(out))
    if mode == "out-trunc":
        out = healthy.output if isinstance(healthy.output, bytes) else b""
        cut = r.randrange(1, max(2, len(out))) if out else 0
        return Result(0, b"", b"", out[:cut])
    if mode == "out-garble":
        out = bytearray(healthy.output if isinstance(healthy.output, bytes) else b"")
        for _ in range(1 + len(out) // 40):
            if out:
                out[r.randrange(len(out))] = r.randrange(256)
        return Result(0, b"", b"", bytes(out))
    raise ValueError("unknown tool fault mode %r" % mode)
